#!/bin/bash
# usage: tools_verify_seed.sh <dir containing patch.diff and demo.py> [baseline junit xml]
# fresh scratch worktree of /repo HEAD: demo on the clean tree (expect 0), apply the patch, demo again (expect 1), full suite on the
# patched tree compared with the failing set of the clean tree. Prints one JSON line. The worktree is removed afterwards.
D=$(realpath "$1"); BASE=${2:-/tmp/verify_seed_baseline.junit.xml}
if [ ! -f "$BASE" ]; then (cd /repo && OMP_NUM_THREADS=2 /venv/bin/python -m pytest -q -p no:cacheprovider --timeout=900 --continue-on-collection-errors --junitxml="$BASE" >/dev/null 2>&1); fi
WT=$(mktemp -d /tmp/vs.XXXXXX)
git -C /repo worktree add -q --detach "$WT" HEAD
trap 'git -C /repo worktree remove --force "$WT" >/dev/null 2>&1; rm -rf "$WT.junit.xml" "$WT.log"' EXIT
cd "$WT"
PYTHONPATH="$WT" timeout 900 /venv/bin/python "$D/demo.py" >/dev/null 2>&1; C=$?
if ! git apply "$D/patch.diff" 2>/dev/null; then echo "{\"dir\": \"$D\", \"apply\": false}"; exit 2; fi
PYTHONPATH="$WT" timeout 900 /venv/bin/python "$D/demo.py" >/dev/null 2>&1; P=$?
OMP_NUM_THREADS=2 /venv/bin/python -m pytest -q -p no:cacheprovider --timeout=900 --continue-on-collection-errors --junitxml="$WT.junit.xml" > "$WT.log" 2>&1
/venv/bin/python - "$BASE" "$WT.junit.xml" "$D" "$C" "$P" <<'PY'
import sys, json
import xml.etree.ElementTree as ET
def fails(p):
    out, n = set(), 0
    for tc in ET.parse(p).getroot().iter("testcase"):
        n += 1
        if tc.find("failure") is not None or tc.find("error") is not None:
            out.add(tc.get("classname", "") + "::" + tc.get("name", ""))
    return out, n
b, nb = fails(sys.argv[1]); p, np_ = fails(sys.argv[2])
print(json.dumps(dict(dir=sys.argv[3], demo_clean_exit=int(sys.argv[4]), demo_patched_exit=int(sys.argv[5]), suite_tests=np_, baseline_tests=nb, new_failures=sorted(p - b), fixed=sorted(b - p))))
PY
