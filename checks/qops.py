"""Catalogue of operations on quantized tensors (C05, C06): every op of the dispatch tables of the current source, invoked
through the public torch API on an arbitrary valid pre-state, plus a fixed list of pass-through functions."""
import itertools

import torch

from . import wq

F = torch.nn.functional

# operand state kinds: (qtype name, axis, shape)
STATES = {
    "pt8": ("qint8", None, (2, 3)),
    "pt8sq": ("qint8", None, (2, 2)),
    "pt8v": ("qint8", None, (4,)),
    "pt8b": ("qint8", None, (2, 2, 3)),
    "ptf8": ("qfloat8_e4m3fn", None, (2, 3)),
    "axm1b": ("qint8", -1, (2, 2, 3)),
    "ax0b": ("qint8", 0, (2, 2, 3)),
    "ax0": ("qint8", 0, (2, 3)),
    "axm1": ("qint8", -1, (2, 3)),
    "ax0sq": ("qint8", 0, (2, 2)),
    "bits4": ("qint4", 0, (2, 4)),
    "bits2": ("qint2", 0, (2, 4)),
}


def make_state(kind, dt, m=None, name="q", seed=0, layout="contiguous", scale_like=None, override=None):
    """build a quantized tensor directly from (symbolic) codes and scale: an arbitrary valid pre-state"""
    from optimum.quanto.tensor import QBitsTensor, QBytesTensor

    qn, axis, shape = STATES[kind]
    q_t = wq.qt(qn)
    g = torch.Generator().manual_seed(seed + 17)
    if q_t.bits == 8:
        if q_t.is_floating_point:
            data = (torch.randn(shape, generator=g) * 30).to(q_t.dtype)
        else:
            data = torch.randint(-128, 128, shape, generator=g, dtype=torch.int8)
        if layout == "transposed" and len(shape) >= 2:
            data = data.transpose(0, -1).contiguous().transpose(0, -1)
        sshape = () if axis is None else tuple(shape[d] if d == axis % len(shape) else 1 for d in range(len(shape)))
        scale = scale_like if scale_like is not None else (torch.rand(sshape, generator=g) * 0.05 + 0.01).to(dt)
        if override:
            if "data" in override:
                data = override["data"].to(data.dtype).reshape(data.shape)
            if "scale" in override and scale_like is None:
                scale = override["scale"].to(dt).reshape(sshape)
        sym = {}
        if m is not None:
            sym["data"] = m.symbolic(data, f"{name}.c")
            if scale_like is None:
                sym["scale"] = m.symbolic(scale, f"{name}.s")
        q = QBytesTensor(q_t, axis, data.size(), data.stride(), data, scale)
        return q, sym
    n = 2**q_t.bits
    data = torch.randint(0, n, shape, generator=g, dtype=torch.uint8)
    scale = (torch.rand((shape[0], 1), generator=g) * 0.05 + 0.01).to(dt)
    zp = torch.randint(0, n, (shape[0], 1), generator=g, dtype=torch.int8)
    sym = {}
    if m is not None:
        sym["data"] = m.symbolic(data, f"{name}.c")
        sym["scale"] = m.symbolic(scale, f"{name}.s")
        sym["zp"] = m.symbolic(zp, f"{name}.z")
    q = QBitsTensor(q_t, axis, None, data.size(), data.stride(), data, scale, zp)
    return q, sym


class Op:
    def __init__(self, name, packet, fn, states, kind, second=None, expect_refusal=None):
        self.name, self.packet, self.fn, self.states, self.kind, self.second, self.expect_refusal = name, packet, fn, states, kind, second, expect_refusal


def _alias_copy(q, o, view):
    """take a view, overwrite the base in place, read the view: aliasing must behave as for plain tensors"""
    base = q.clone()
    v = view(base)
    base.copy_(o)
    return v


def _op_after_overwritten_result(q, o, f):
    """the caller overwrites in place a result it owns, then runs the same operation again on the original operand"""
    r1 = f(q)
    r1.copy_(o)
    return f(q)


def _earlier_result_after_overwrite(q, o, f):
    """an earlier result must not change when a later result of the same operation is overwritten in place"""
    r0 = f(q)
    r1 = f(q.clone())
    r1.copy_(o)
    return r0


def _inplace(q, f):
    """apply an in-place operation to a private copy and return the receiver: it must then hold what the float program holds"""
    z = q.clone()
    f(z)
    return z


def _flat_roundtrip(q):
    """__tensor_flatten__ / __tensor_unflatten__ as subclass tracing and torch.compile use them (plain tensors: identity)"""
    if not hasattr(q, "__tensor_flatten__"):
        return q
    inner, meta = q.__tensor_flatten__()
    return type(q).__tensor_unflatten__({n: getattr(q, n) for n in inner}, meta, None, None)


def _other_dtype(t):
    return t.to(torch.float16 if t.dtype == torch.float32 else torch.float32)


def catalogue():
    """list of Op. fn(q, other) -> result, applied identically to the quantized operands and to their dequantized values.
    second: None | 'same-scale' | 'diff-scale' | 'plain' (kind of the second operand)"""
    a = torch.ops.aten
    ALL8 = ["pt8", "ptf8", "ax0", "axm1", "pt8v", "pt8b"]
    PT = ["pt8", "ptf8", "pt8v", "pt8b"]
    D2 = ["pt8", "ptf8", "ax0", "axm1", "pt8sq", "ax0sq"]
    LOW = ["bits4", "bits2"]
    ops = [
        Op("to-same-dtype", a._to_copy, lambda q, o: q.to(q.dtype), ALL8 + LOW, "move"),
        Op("to-float16", a._to_copy, lambda q, o: q.to(torch.float16), ALL8, "dtype-move"),
        Op("to-float16-lowbit", a._to_copy, lambda q, o: q.to(torch.float16), LOW, "move", expect_refusal=ValueError),
        Op("to-cpu-copy", a._to_copy, lambda q, o: q.to("cpu", copy=True), ALL8 + LOW, "move"),
        Op("detach", a.detach, lambda q, o: q.detach(), ALL8 + LOW, "move"),
        Op("clone", a.clone, lambda q, o: q.clone(), ALL8, "move"),
        Op("clone-contiguous", a.clone, lambda q, o: q.clone(memory_format=torch.contiguous_format), ["pt8", "ax0"], "move"),
        Op("cat-same-scale", a.cat, lambda q, o: torch.cat([q, o], 0), PT, "move", "same-scale"),
        Op("cat-dim-1", a.cat, lambda q, o: torch.cat([q, o], -1), ["pt8", "ptf8"], "move", "same-scale"),
        Op("cat-diff-scale", a.cat, lambda q, o: torch.cat([q, o], 0), ["pt8", "ax0"], "move", "diff-scale"),
        Op("cat-with-plain", a.cat, lambda q, o: torch.cat([q, o], 0), ["pt8"], "move", "plain"),
        Op("cat-three", a.cat, lambda q, o: torch.cat([q, o, q], 0), ["pt8"], "move", "same-scale"),
        Op("stack-same-scale", a.stack, lambda q, o: torch.stack([q, o], 0), ["pt8", "ptf8"], "move", "same-scale"),
        Op("stack-diff-scale", a.stack, lambda q, o: torch.stack([q, o], 0), ["pt8"], "move", "diff-scale"),
        Op("stack-three", a.stack, lambda q, o: torch.stack([q, o, q], 1), ["pt8"], "move", "same-scale"),
        Op("lt-same-scale", a.lt, lambda q, o: q < o, ["pt8", "ptf8"], "compare", "same-scale"),
        Op("lt-diff-scale", a.lt, lambda q, o: q < o, ["pt8"], "compare", "diff-scale"),
        Op("lt-plain", a.lt, lambda q, o: q < o, ["pt8", "ax0"], "compare", "plain"),
        Op("lt-scalar", a.lt, lambda q, o: q < 0.3, ["pt8", "ptf8", "ax0"], "compare"),
        Op("lt-0dim", a.lt, lambda q, o: q < torch.tensor(-0.2), ["pt8"], "compare"),
        Op("lt-scalar-after-negation", a.lt, lambda q, o: (q * -1.0) < 0.3, ["pt8", "ax0"], "compare"),
        Op("relu-after-negation", a.relu, lambda q, o: torch.relu(-1.0 * q), ["pt8", "ax0"], "rescale"),
        Op("lt-same-scale-after-negation", a.lt, lambda q, o: (q * -1.0) < (o * -1.0), ["pt8"], "compare", "same-scale"),
        Op("copy_-quantized", a.copy_, lambda q, o: q.clone().copy_(o), ["pt8", "ptf8"], "move2", "diff-scale"),
        Op("alias-t-then-copy_", a.copy_, lambda q, o: _alias_copy(q, o, lambda z: z.t()), ["pt8", "ptf8"], "move2", "diff-scale"),
        Op("alias-detach-then-copy_", a.copy_, lambda q, o: _alias_copy(q, o, lambda z: z.detach()), ["pt8"], "move2", "diff-scale"),
        Op("alias-select-then-copy_", a.copy_, lambda q, o: _alias_copy(q, o, lambda z: z[0]), ["pt8"], "move2", "diff-scale"),
        Op("copy_-into-plain", a.copy_, lambda q, o: o.clone().copy_(q), ["pt8", "ax0"], "move", "plain"),
        Op("copy_-quantized-other-dtype", a.copy_, lambda q, o: q.clone().copy_(_other_dtype(o)), ["pt8", "ptf8"], "dtype-move", "diff-scale"),
        Op("copy_-plain-other-dtype", a.copy_, lambda q, o: q.clone().copy_(_other_dtype(o)), ["pt8"], "dtype-move", "plain"),
        Op("narrow-neg-dim-first", a.slice, lambda q, o: q.narrow(-q.ndim, 0, 1), ["pt8", "ax0", "axm1", "pt8b"], "move"),
        Op("narrow-neg-dim-last", a.slice, lambda q, o: q.narrow(-1, 1, 1), ["pt8", "ptf8", "ax0", "axm1"], "move"),
        Op("diff-last", None, lambda q, o: torch.diff(q, dim=-1), ["pt8", "axm1"], "float"),
        Op("inplace-mul_", None, lambda q, o: _inplace(q, lambda z: z.mul_(0.5)), ["pt8", "ax0", "ptf8"], "rescale"),
        Op("inplace-imul", None, lambda q, o: _inplace(q, lambda z: z.__imul__(2.0)), ["pt8"], "rescale"),
        Op("inplace-div_", None, lambda q, o: _inplace(q, lambda z: z.div_(4.0)), ["pt8", "axm1"], "rescale"),
        Op("inplace-neg_", None, lambda q, o: _inplace(q, lambda z: z.neg_()), ["pt8"], "rescale"),
        Op("inplace-relu_", None, lambda q, o: _inplace(q, lambda z: z.relu_()), ["pt8", "ax0"], "rescale"),
        Op("inplace-add_", None, lambda q, o: _inplace(q, lambda z: z.add_(1.0)), ["pt8"], "float"),
        Op("inplace-clamp_", None, lambda q, o: _inplace(q, lambda z: z.clamp_(-0.5, 0.5)), ["pt8"], "float"),
        Op("inplace-zero_", None, lambda q, o: _inplace(q, lambda z: z.zero_()), ["pt8", "bits4"], "float"),
        Op("flatten-unflatten", None, lambda q, o: _flat_roundtrip(q), ALL8 + LOW, "move"),
        Op("div-scalar", a.div, lambda q, o: q / 3.0, ALL8, "rescale"),
        Op("div-0dim", a.div, lambda q, o: q / torch.tensor(2.5), ["pt8", "ax0"], "rescale"),
        Op("div-tensor", a.div, lambda q, o: q / o, ["pt8", "ax0"], "float", "plain"),
        Op("neg", a.neg, lambda q, o: -q, ALL8, "rescale"),
        Op("expand", a.expand, lambda q, o: q.unsqueeze(0).expand(2, *q.shape), ["pt8", "ptf8", "ax0"], "move"),
        Op("permute", a.permute, lambda q, o: q.permute(*reversed(range(q.ndim))), ["pt8", "ptf8", "ax0", "pt8b"], "move"),
        Op("select", a.select, lambda q, o: q[1], ALL8, "move"),
        Op("select-last", a.select, lambda q, o: q.select(-1, 0), ["pt8", "ax0", "axm1"], "move"),
        Op("slice", a.slice, lambda q, o: q[1:], ALL8, "move"),
        Op("slice-step", a.slice, lambda q, o: q[..., ::2], ["pt8", "ptf8", "ax0", "axm1"], "move"),
        Op("unsqueeze", a.unsqueeze, lambda q, o: q.unsqueeze(1), ALL8, "move"),
        Op("is_same_size", a.is_same_size, lambda q, o: torch.tensor(q.is_same_size(o)), ["pt8", "ax0"], "exact", "plain"),
        Op("mm", a.mm, lambda q, o: torch.mm(q, o.t()), ["pt8", "ptf8"], "contract", "diff-scale"),
        Op("mm-plain", a.mm, lambda q, o: torch.mm(q, o.t()), ["pt8", "ax0"], "contract", "plain"),
        Op("matmul", a.mm, lambda q, o: torch.matmul(q, o.t()), ["pt8", "axm1"], "contract", "diff-scale"),
        Op("bmm", a.bmm, lambda q, o: torch.bmm(q, o.transpose(1, 2)), ["pt8b"], "contract", "diff-scale"),
        Op("bmm-plain", a.bmm, lambda q, o: torch.bmm(q, o.transpose(1, 2)), ["pt8b"], "contract", "plain"),
        Op("bmm-per-axis", a.bmm, lambda q, o: torch.bmm(q, o.transpose(1, 2)), ["axm1b", "ax0b"], "contract", "per-tensor-3d"),
        Op("mul-scalar", a.mul, lambda q, o: q * 2.5, ALL8, "rescale"),
        Op("rmul-scalar", a.mul, lambda q, o: 0.5 * q, ["pt8", "ax0", "ptf8"], "rescale"),
        Op("mul-0dim", a.mul, lambda q, o: q * torch.tensor(1.5), ["pt8", "ax0"], "rescale"),
        Op("mul-11-tensor", a.mul, lambda q, o: q * torch.full((1, 1), 2.0), ["pt8v"], "float"),
        Op("mul-tensor", a.mul, lambda q, o: q * o, ["pt8", "ax0"], "float", "plain"),
        Op("mul-quantized", a.mul, lambda q, o: q * o, ["pt8"], "float", "diff-scale"),
        Op("relu", a.relu, lambda q, o: torch.relu(q), ALL8, "rescale"),
        Op("softmax", a._softmax, lambda q, o: torch.softmax(q, -1), ["pt8", "ptf8", "pt8v"], "requant"),
        Op("softmax-after-overwritten-result", a._softmax, lambda q, o: _op_after_overwritten_result(q, o, lambda z: torch.softmax(z, -1)), ["pt8", "ptf8"], "requant", "diff-scale"),
        Op("softmax-earlier-result-after-overwrite", a._softmax, lambda q, o: _earlier_result_after_overwrite(q, o, lambda z: torch.softmax(z, -1)), ["pt8", "ptf8"], "requant", "diff-scale"),
        Op("relu-after-overwritten-result", a.relu, lambda q, o: _op_after_overwritten_result(q, o, torch.relu), ["pt8"], "rescale", "diff-scale"),
        Op("mul-scalar-earlier-result-after-overwrite", a.mul, lambda q, o: _earlier_result_after_overwrite(q, o, lambda z: z * 0.5), ["pt8"], "rescale", "diff-scale"),
        Op("split", a.split, lambda q, o: torch.split(q, 1, 0), ["pt8", "ptf8", "ax0"], "move"),
        Op("split-last", a.split, lambda q, o: torch.split(q, 2, -1), ["pt8"], "move"),
        Op("chunk", a.split, lambda q, o: torch.chunk(q, 2, 0), ["pt8"], "move"),
        Op("transpose", a.transpose, lambda q, o: q.transpose(0, 1), ["pt8", "ptf8", "ax0", "axm1", "pt8b"], "move"),
        Op("t", a.t, lambda q, o: q.t(), D2, "move"),
        Op("t-1d", a.t, lambda q, o: q.t(), ["pt8v"], "move"),
        Op("t-t", a.t, lambda q, o: q.t().t(), ["ax0", "axm1", "pt8"], "move"),
        Op("view", a.view, lambda q, o: q.view(-1), ["pt8", "ptf8", "ax0"], "move"),
        Op("reshape", a.view, lambda q, o: q.reshape(q.shape[-1], -1), ["pt8", "ax0", "axm1"], "move"),
        Op("flatten", a.view, lambda q, o: q.flatten(), ["pt8", "pt8b"], "move"),
        Op("where", a.where, lambda q, o: torch.where(o > 0, q, o), ["pt8", "ptf8", "ax0"], "requant", "plain"),
        Op("where-quantized-cond", a.where, lambda q, o: torch.where(q, q, q), ["pt8"], "move", expect_refusal=NotImplementedError),
        # qtensor_func table
        Op("F.linear", F.linear, lambda q, o: F.linear(q, o), ["pt8"], "contract", "diff-scale"),
        Op("F.layer_norm", F.layer_norm, lambda q, o: F.layer_norm(q, q.shape[-1:]), ["pt8", "ax0"], "float"),
        Op("F.log_softmax", F.log_softmax, lambda q, o: F.log_softmax(q, -1), ["pt8"], "float"),
        Op("F.cosine_similarity", F.cosine_similarity, lambda q, o: F.cosine_similarity(q, o, -1), ["pt8"], "float", "plain"),
        Op("F.cross_entropy", F.cross_entropy, lambda q, o: F.cross_entropy(q, torch.tensor([1, 0])), ["pt8"], "float"),
        Op("topk", torch.topk, lambda q, o: torch.topk(q, 1).values, ["pt8"], "float"),
        # pass-through list (qfallback / composite decompositions)
        Op("add-plain", None, lambda q, o: q + o, ["pt8", "ax0", "bits4"], "float", "plain"),
        Op("add-quantized", None, lambda q, o: q + o, ["pt8"], "float", "diff-scale"),
        Op("add-rescaled-alias", None, lambda q, o: q + (q * 0.5), ["pt8", "ax0"], "rescale"),
        Op("sub-rescaled-alias", None, lambda q, o: (q / 4) - q, ["pt8"], "rescale"),
        Op("maximum-rescaled-alias", None, lambda q, o: torch.maximum(q, q * 2.0), ["pt8"], "rescale"),
        Op("cat-rescaled-alias", a.cat, lambda q, o: torch.cat([q, q / 4]), ["pt8"], "rescale"),
        Op("stack-rescaled-alias", a.stack, lambda q, o: torch.stack([q, q * 0.5, q]), ["pt8"], "rescale"),
        Op("sub-scalar", None, lambda q, o: q - 1.0, ["pt8", "ptf8"], "float"),
        Op("abs", None, lambda q, o: torch.abs(q), ["pt8", "ax0"], "float"),
        Op("sum", None, lambda q, o: q.sum(-1), ["pt8", "ax0", "bits4"], "float"),
        Op("mean", None, lambda q, o: q.mean(), ["pt8"], "float"),
        Op("amax", None, lambda q, o: q.amax(-1), ["pt8", "axm1"], "float"),
        Op("gelu", None, lambda q, o: F.gelu(q), ["pt8"], "float"),
        Op("sigmoid", None, lambda q, o: torch.sigmoid(q), ["pt8"], "float"),
        Op("squeeze", None, lambda q, o: q.unsqueeze(0).squeeze(0), ["pt8", "ax0"], "move"),
        Op("index_select", None, lambda q, o: torch.index_select(q, 0, torch.tensor([1, 0])), ["pt8", "ax0"], "move"),
        Op("pad", None, lambda q, o: F.pad(q, (1, 1)), ["pt8"], "float"),
        Op("pad-circular", None, lambda q, o: F.pad(q.unsqueeze(0), (1, 1), mode="circular"), ["pt8"], "move"),
        Op("eq-plain", None, lambda q, o: q == o, ["pt8"], "compare", "plain"),
        Op("float()", None, lambda q, o: q.float(), ["pt8", "ax0"], "dtype-move"),
        Op("lowbit-t", None, lambda q, o: q.t(), LOW, "move"),
        Op("lowbit-matmul", None, lambda q, o: torch.matmul(o, q.t()), ["bits4", "bits2"], "float", "plain-rows"),
        Op("lowbit-detach-clone", None, lambda q, o: q.detach().clone(), LOW, "float"),
        Op("lowbit-mul", None, lambda q, o: q * 2.0, LOW, "float"),
    ]
    return ops


def table_packets():
    """aten packets / torch functions registered in the dispatch tables of the current source"""
    from optimum.quanto.tensor import qbytes_ops, qtensor_func
    from optimum.quanto.tensor.qbits import qbits_ops

    return set(qbytes_ops._QBYTESTENSOR_OP_TABLE) | set(qbits_ops._QBITSTENSOR_OP_TABLE) | set(qtensor_func._QTENSOR_FUNC_TABLE)


def metadata_problems(r, depth=0):
    """C06 invariants of a returned quantized tensor"""
    from optimum.quanto.tensor import QBitsTensor, QBytesTensor, QTensor
    from optimum.quanto.tensor.qbits.packed import PackedTensor

    if not isinstance(r, QTensor):
        return []
    probs = []
    try:
        d = r.dequantize()
    except Exception as e:  # noqa
        return [f"dequantize() raises {type(e).__name__}: {e}"]
    if tuple(r.shape) != tuple(d.shape):
        probs.append(f"reports shape {tuple(r.shape)} but holds {tuple(d.shape)}")
    if r.dtype != d.dtype:
        probs.append(f"reports dtype {r.dtype} but dequantizes to {d.dtype}")
    if r.device != d.device:
        probs.append(f"reports device {r.device} but dequantizes on {d.device}")
    if isinstance(r, QBytesTensor):
        if tuple(r._data.shape) != tuple(d.shape) or r._data.numel() != d.numel():
            probs.append(f"payload shape {tuple(r._data.shape)} for {tuple(d.shape)} elements")
        if r.qtype.dtype != r._data.dtype:
            probs.append(f"qtype {r.qtype} but payload dtype {r._data.dtype}")
        if r._scale.dtype != r.dtype:
            probs.append(f"scale dtype {r._scale.dtype} != tensor dtype {r.dtype}")
        if r.axis is None:
            if r._scale.numel() != 1:
                probs.append(f"axis None but scale has {r._scale.numel()} entries")
        else:
            nd = r._data.ndim
            if r.axis not in (0, -1) or nd < 2:
                probs.append(f"axis {r.axis} on a {nd}-d tensor")
            else:
                exp = tuple(r._data.shape[d_] if d_ == r.axis % nd else 1 for d_ in range(nd))
                if tuple(r._scale.shape) != exp:
                    probs.append(f"declares axis {r.axis} but scale shape {tuple(r._scale.shape)} (payload {tuple(r._data.shape)}) does not broadcast along it")
    if isinstance(r, QBitsTensor):
        if type(r._data) is not PackedTensor:
            probs.append(f"low-bit payload is {type(r._data).__name__}")
        else:
            logical = tuple(r._data.shape)
            if r._data.unpack().numel() != d.numel():
                probs.append(f"unpacked payload has {r._data.unpack().numel()} codes for {d.numel()} elements")
            exp_rows = -(-logical[0] * r.qtype.bits // 8)
            if r._data._data.shape[0] != exp_rows or r._data._data.dtype != torch.uint8:
                probs.append(f"packed payload {tuple(r._data._data.shape)} {r._data._data.dtype}, expected {exp_rows} rows of uint8")
        if r._scale.shape != r._zeropoint.shape or r._zeropoint.dtype != torch.int8 or r._scale.dtype != r.dtype:
            probs.append(f"scale/zeropoint {tuple(r._scale.shape)} {r._scale.dtype} / {tuple(r._zeropoint.shape)} {r._zeropoint.dtype}")
    return probs


def flatten_results(r):
    if isinstance(r, (list, tuple)):
        return [x for y in r for x in flatten_results(y)]
    return [r]


def deq(t):
    from optimum.quanto.tensor import QTensor

    return t.dequantize() if isinstance(t, QTensor) else t


def second_operand(op, kind, q, dt, m=None, override=None):
    """the second operand for binary ops"""
    qn, axis, shape = STATES[kind]
    if op.second is None:
        return None, {}
    if op.second == "same-scale":
        o, sym = make_state(kind, dt, m, "o", seed=5, scale_like=q._scale)
        return o, sym
    if op.second == "diff-scale":
        o, sym = make_state(kind, dt, m, "o", seed=5, override=override)
        return o, sym
    if op.second == "per-tensor-3d":
        o, sym = make_state("pt8b", dt, m, "o", seed=5, override=override)
        return o, sym
    if op.second == "plain":
        g = torch.Generator().manual_seed(9)
        o = (torch.randn(shape, generator=g) * 2).to(dt)
        sym = {"data": m.symbolic(o, "o")} if m is not None else {}
        return o, sym
    if op.second == "plain-rows":
        g = torch.Generator().manual_seed(9)
        o = (torch.randn((2, shape[-1]), generator=g) * 2).to(dt)
        sym = {"data": m.symbolic(o, "o")} if m is not None else {}
        return o, sym
    raise KeyError(op.second)
