"""C05 - Operations on quantized tensors equal the same operations on dequantized values (DESIGN.md section 6, C05)."""
import itertools
from fractions import Fraction

import torch

from . import qops, wq

EVIDENCE = dict(
    bounds="one inductive step from an ARBITRARY valid pre-state (all int8 codes / all non-NaN float8 codes, any positive finite scale, per-tensor and per-axis, 2/4-bit tensors from arbitrary codes/scales/zero-points) for every operation of the dispatch tables of the current source (read at run time; an op without an invocation in the catalogue is reported) plus a fixed pass-through list; shapes (2,3), (2,2), (4,), (2,2,3), contiguous (quick) and transposed (thorough); second operands: same scale / different scale / plain / scalar; float16 and float32; depth-2 and depth-3 compositions over a 12-op alphabet in the thorough tier; the catalogue includes aliasing programs (view, in-place write to the base, read the view), in-place pass-through operations, negative-dim narrow, cross-dtype copy_, flatten/unflatten; recorded tensor-to-bool branches are flipped by the solver",
    outside="programs of depth > 3 are covered only through the inductive argument (every result is checked to be a valid state by C06); contractions are value-checked by C07 (here: refusal, shape, dtype, support); CUDA/MPS branches",
    assumptions=[
        "data-moving and fall-back ops: ALG term identity with the same API call on the dequantized operands",
        "rescaling ops: RERR, relative 4u of the result dtype; re-quantizing ops: within one step of the output scale given in-range inputs (softmax output in [0,1] is assumed of the PyTorch kernel); comparisons: BIT Boolean equivalence",
        "scales are positive (every scale quanto computes is an absmax or a range)",
    ],
)
CASE_DEADLINE = dict(quick=300.0, thorough=1500.0)
ALPHABET = ["t", "transpose", "view", "slice", "select", "unsqueeze", "mul-scalar", "div-scalar", "neg", "relu", "clone", "detach"]


def cases(tier, seed):
    ops = qops.catalogue()
    out = []
    dts = ["float32", "float16"]
    names = [o.name for o in ops]
    n = 6
    for dt in dts:
        for i in range(0, len(names), n):
            out.append(dict(kind="ops", dtype=dt, ops=names[i : i + n], layouts=["contiguous"] if tier == "quick" else ["contiguous", "transposed"]))
    out.append(dict(kind="coverage"))
    if tier == "thorough":
        progs = [list(p) for d in (2, 3) for p in itertools.product(ALPHABET, repeat=d)]
        progs = progs[:: max(1, len(progs) // 160)]
        for i in range(0, len(progs), 20):
            out.append(dict(kind="programs", dtype="float32", programs=progs[i : i + 20]))
    else:
        progs = [[a, b] for a in ALPHABET[:8] for b in ALPHABET[:8]][::3]
        out.append(dict(kind="programs", dtype="float32", programs=progs))
    return out


KNOWN = {
    "lt-same-scale@ptf8": "C05/lt-float8-raises",
    "t-1d": "C05/t-on-1d-raises",
    "stack-diff-scale": "C05/stack-fallback-raises",
    "stack-three": "C05/stack-fallback-raises",
    "copy_-into-plain": "C05/copy-into-plain-raises",
    "pad-circular": "C05/copy-into-plain-raises",
    "copy_-plain-other-dtype": "C05/copy-plain-into-quantized-raises",
}


def flipped_seeds(m, sym, osym, api, rerr, z3, torch_dt):
    """for every data-dependent branch the run took (torch.equal(scale1, scale2), allclose, ...), solve for operand values that
    take the other side; returns list of override dicts for (q, o)"""
    outs = []
    for i, (cond, outcome, kind_) in enumerate(m.path[:3]):
        if kind_ != "branch":
            continue
        for ideal in (True, False):
            try:
                r = rerr.Rerr(m.ctx, ideal=ideal)
                pre = list(r.cons)
                for c2, o2, _ in m.path[:i]:
                    pc = r.tr(c2)
                    pre.append(pc if o2 else z3.Not(pc))
                pc = r.tr(cond)
                for s_ in (sym.get("scale"), osym.get("scale")):
                    if s_ is not None:
                        pre += [r.tr(t) >= rerr.rv(0.001) for t in s_.reshape(-1)] + [r.tr(t) <= rerr.rv(1) for t in s_.reshape(-1)]
                # prefer a flip in which the two operands' scales are NOT identical (the interesting side of approximate tests)
                extra = []
                if sym.get("scale") is not None and osym.get("scale") is not None and sym["scale"].size == osym["scale"].size:
                    extra = [z3.Or(*[r.tr(a) != r.tr(b) for a, b in zip(sym["scale"].reshape(-1), osym["scale"].reshape(-1))])]
                v, secs, mdl = api.solve(pre + [z3.Not(pc) if outcome else pc] + extra, 20)
                if v != "sat" and extra:
                    v, secs, mdl = api.solve(pre + [z3.Not(pc) if outcome else pc], 20)
                if v == "sat":
                    ov = {}
                    for nm, s_ in (("q", sym), ("o", osym)):
                        d = {}
                        for k, arr in s_.items():
                            tdt = torch_dt if k == "scale" else None
                            if k == "scale":
                                vals = api.real_model_values(r, mdl, arr, torch.float64)
                                d[k] = torch.tensor(vals, dtype=torch.float64)
                        ov[nm] = d
                    outs.append(ov)
                    break
            except NotImplementedError:
                continue
    return outs


def run_op(op, kind, dt, layout, m, res, api, tm, rerr, bit, z3, override=None):
    """one inductive step; returns nothing, records queries/candidates"""
    from optimum.quanto.tensor import QTensor

    q, sym = qops.make_state(kind, dt, m, "q", layout=layout, override=(override or {}).get("q"))
    o, osym = qops.second_operand(op, kind, q, dt, m, override=(override or {}).get("o"))
    res._last_syms = (sym, osym)
    cfg = f"{op.name} on {kind}/{layout}" + (" [flipped branch]" if override else "")
    enc = dict(kind="op", op=op.name, state=kind, dtype=api.dtn(dt), layout=layout)

    def enc_inputs(model=None, r=None):
        e = dict(enc)
        for nm, t, s in (("q", q, sym), ("o", o, osym)):
            if t is None:
                continue
            parts = {}
            if isinstance(t, QTensor):
                inner = dict(data=t._data if t.qtype.bits == 8 else t._data.unpack(), scale=t._scale)
                if t.qtype.bits < 8:
                    inner["zp"] = t._zeropoint
            else:
                inner = dict(data=t)
            for k, v in inner.items():
                if model is not None and k in s:
                    tdt = v.dtype if v.dtype not in (tm.E4M3, tm.E5M2) else torch.float32
                    vals = api.real_model_values(r, model, s[k], tdt) if not isinstance(r, bit.Bit) else api.model_values(r, model, s[k])
                    parts[k] = api.enc_tensor(api.tensor_from_values(vals, tuple(v.shape), tdt))
                else:
                    parts[k] = api.enc_tensor(v.float() if v.dtype in (tm.E4M3, tm.E5M2) else v)
            e[nm] = parts
        return e

    try:
        ref = op.fn(qops.deq(q), qops.deq(o) if o is not None else None)
    except Exception as e:  # the float program is not valid: nothing to check
        res.notes.append(f"{cfg}: float program raises {type(e).__name__}")
        return
    try:
        got = op.fn(q, o)
    except api.Unsupported:
        raise
    except Exception as e:  # noqa
        if op.expect_refusal is not None and isinstance(e, op.expect_refusal):
            res.side_ok("documented-refusal", True, cfg)
            return
        res.side_ok("quantized-program-does-not-raise", False, f"{cfg}: {type(e).__name__}: {e}")
        res.side[-1]["replayed"] = True
        kn = op.name in KNOWN or f"{op.name}@{kind}" in KNOWN
        res.candidate(("region-witness:" if kn else "") + "raises:" + op.name, "side", enc_inputs(), exact=not kn)
        return
    G, R = qops.flatten_results(got), qops.flatten_results(ref)
    shapes_ok = len(G) == len(R) and all(tuple(qops.deq(g).shape) == tuple(r_.shape) and qops.deq(g).dtype == r_.dtype for g, r_ in zip(G, R))
    res.side_ok("result-shape-dtype-equal-float-program", shapes_ok, f"{cfg}: {[tuple(qops.deq(g).shape) for g in G]} vs {[tuple(r_.shape) for r_ in R]}")
    if not shapes_ok:
        res.side[-1]["replayed"] = True
        res.candidate("shape:" + op.name, "side", enc_inputs(), exact=True)
        return
    ctx = m.ctx
    bits = q.qtype.bits if isinstance(q, QTensor) else 8
    path = [(c_, o_) for c_, o_, k_ in m.path if k_ == "branch"]  # data-dependent branches this run took: assumptions of its claims

    def path_pre(tr_):
        out_ = []
        for c_, o_ in path:
            try:
                e_ = tr_.tr(c_)
                out_.append(e_ if o_ else z3.Not(e_))
            except NotImplementedError:
                pass
        return out_

    f = tm.FMT[R[0].dtype] if R[0].dtype in tm.FLOATS else tm.FMT[dt]
    if op.kind == "dtype-move" and tm.FMT[dt]["p"] < f["p"]:
        f = tm.FMT[dt]  # rounding of the coarser of the two dtypes involved
    u = Fraction(1, 2 ** f["p"])
    eta = Fraction(2) ** (f["emin"] - f["p"])
    rv, zabs = rerr.rv, rerr.zabs
    for g, r_ in zip(G, R):
        A, B = m.read(qops.deq(g)).reshape(-1), m.read(r_).reshape(-1)
        if all(x is y for x, y in zip(A, B)):
            res.query("equals-float-program", "ALG", "unsat", 0.0, sub=cfg, nvars=len(ctx.vars))
            continue
        if bits < 8:
            eq = api.equal_modulo_bits(ctx, A, B, bits, None)
            if eq:
                res.query("equals-float-program", "ALG", "unsat", 0.0, sub=cfg + " (modulo bit-packing lemmas)")
                continue
        if op.kind in ("move", "move2", "exact", "float"):
            res.query("equals-float-program", "ALG", "sat", 0.0, sub=cfg)
            res.candidate("value:" + op.name, "ALG", enc_inputs(), note="terms differ from the float program's; seed as witness")
            # try a distinguishing input in exact arithmetic
            try:
                r = rerr.Rerr(ctx, ideal=True)
                neq = [r.tr(x) != r.tr(y) for x, y in zip(A, B) if x is not y]
                v, secs, mdl = api.solve(r.cons + path_pre(r) + [z3.Or(*neq)], 30)
                if v == "sat":
                    res.candidate("value:" + op.name, "RERR-ideal", enc_inputs(mdl, r))
            except NotImplementedError:
                pass
            continue
        if op.kind == "compare":
            b = bit.Bit(ctx)
            pre = list(b.side) + path_pre(b)
            for s_ in [sym.get("scale"), osym.get("scale")]:
                if s_ is not None:
                    for t in s_.reshape(-1):
                        e = b.tr(t)
                        # valid pre-state: positive normal scale whose grid end points are representable
                        pre += [z3.fpGT(e, z3.FPVal(0, e.sort())), z3.Not(z3.fpIsInf(e)), z3.fpIsNormal(e), z3.Not(z3.fpIsInf(z3.fpMul(z3.RNE(), e, z3.FPVal(448.0, e.sort()))))]
            for s_ in [sym.get("data"), osym.get("data")]:
                if s_ is not None:
                    for t in s_.reshape(-1):
                        if t.dt in tm.FLOATS:
                            e = b.tr(t)
                            pre += [z3.Not(z3.fpIsNaN(e)), z3.Not(z3.fpIsInf(e))]
            for i, (x, y) in enumerate(zip(A, B)):
                if x is y:
                    continue
                v, secs, mdl = api.solve(pre + [z3.Xor(b.tr(x), b.tr(y))], 60)
                res.query("equals-float-program", "BIT", v, secs, sub=f"{cfg} elem{i}")
                if v == "sat":
                    res.candidate("value:" + op.name, "BIT", enc_inputs(mdl, b), exact=True)
                if v != "unsat" or i >= 1:
                    break  # elements are treated uniformly: two are decided, the rest share the same term shape
            continue
        if op.kind == "contract":
            res.notes.append(f"{cfg}: contraction value-checked by C07")
            continue
        # rescale / dtype-move / requant: RERR per element
        for i, (x, y) in enumerate(zip(A, B)):
            if x is y:
                continue
            r = rerr.Rerr(ctx)
            xr, yr = r.tr(x), r.tr(y)
            pre = list(r.cons) + path_pre(r)
            for s_ in [sym.get("scale"), osym.get("scale")]:
                if s_ is not None:
                    pre += [z3.And(r.tr(t) >= rv(f["fmin_norm"] * 2**16), r.tr(t) * 448 <= rv(f["fmax"])) for t in s_.reshape(-1) if t.uid in r.memo]
            for s_ in [sym.get("data"), osym.get("data")]:
                if s_ is not None:
                    pre += [z3.And(r.tr(t) <= 448, r.tr(t) >= -448) for t in s_.reshape(-1) if t.uid in r.memo and t.dt in (tm.E4M3, tm.E5M2)]
            tol = rv(6 * u) * zabs(yr) + rv(16 * eta)
            if op.kind == "requant":
                sc = m.read(g._scale).reshape(-1)[0] if isinstance(g, QTensor) else None
                step = r.tr(sc) if sc is not None else 0
                if isinstance(g, QTensor) and g.qtype.is_floating_point:
                    # float8 grid: half a local grid spacing = 2^-p8 relative (plus the subnormal quantum), times the scale
                    f8 = tm.FMT[g.qtype.dtype]
                    tol = tol + zabs(yr) * rv(Fraction(101, 100) / 2 ** f8["p"]) + step * rv(Fraction(2) ** (f8["emin"] - f8["p"]))
                else:
                    tol = tol + step * rv(Fraction(51, 100))
                ufs = [t for t in tm.topo([x, y]) if t.op == "uf" and "softmax" in t.args[0]]
                pre += [z3.And(r.tr(t) >= 0, r.tr(t) <= 1) for t in ufs]
                if op.name == "where" and sc is not None:
                    qmax = 127 if not g.qtype.is_floating_point else 448
                    pre += [zabs(r.tr(t)) <= qmax * step for t in osym["data"].reshape(-1) if t.uid in r.memo]
                pre += [o_ for k_, o_, t_ in r.oblig if k_ in ("castrange", "f8range")] if False else []
            bad = False
            if i == 0:
                for kind_, ob, t_ in r.oblig:
                    if kind_ in ("intwrap", "castrange"):
                        v, secs, mdl = api.solve(pre + [z3.Not(ob)], 30)
                        res.query("no-integer-wrap", "RERR", v, secs, sub=f"{cfg} {kind_} at {t_.op}")
                        if v == "sat":
                            res.candidate("wrap:" + op.name, "RERR", enc_inputs(mdl, r))
            for gi, goal in enumerate((xr - yr, yr - xr)):
                v, secs, mdl = api.solve(pre + [goal > tol], 60)
                res.query("equals-float-program", "RERR", v, secs, sub=f"{cfg} elem{i} side{gi}")
                if v == "sat":
                    res.candidate("value:" + op.name, "RERR", enc_inputs(mdl, r))
                    bad = True
            if bad:
                break


def run_case(case, res):
    import z3

    from symt import api, bit, rerr
    from symt import terms as tm
    from symt.api import Session

    if case["kind"] == "coverage":
        packets = qops.table_packets()
        covered = {o.packet for o in qops.catalogue() if o.packet is not None}
        ignore = {torch._has_compatible_shallow_copy_type}
        a = torch.ops.aten
        alias = {a.to: a._to_copy, a._unsafe_view: a.view}  # reached through the same public calls (q.to(...), reshape/matmul)
        missing = [str(p) for p in packets if p not in covered and p not in ignore and alias.get(p) not in covered]
        res.query("every-dispatch-table-entry-has-an-invocation", "side", "unsat" if not missing else "unknown", 0.0, symbolic=False, note=f"ops registered in the current source without a catalogue entry (NOT checked): {missing}" if missing else "")
        return
    dt = api.DT[case["dtype"]]
    if case["kind"] == "ops":
        cat = {o.name: o for o in qops.catalogue()}
        for name in case["ops"]:
            op = cat[name]
            for kind in op.states:
                for layout in case["layouts"]:
                    if layout == "transposed" and len(qops.STATES[kind][2]) < 2:
                        continue
                    with Session(res) as m:
                        run_op(op, kind, dt, layout, m, res, api, tm, rerr, bit, z3)
                    if m.path and op.second in ("diff-scale", "same-scale"):
                        # concolic step: re-run on the other side of each data-dependent branch
                        sym, osym = res._last_syms
                        for ov in flipped_seeds(m, sym, osym, api, rerr, z3, dt)[:2]:
                            with Session(res) as m2:
                                run_op(op, kind, dt, layout, m2, res, api, tm, rerr, bit, z3, override=ov)
        return
    if case["kind"] == "programs":
        cat = {o.name: o for o in qops.catalogue()}
        from optimum.quanto.tensor import QTensor

        for prog in case["programs"]:
            for kind in ("pt8", "ax0"):
                with Session(res) as m:
                    q, sym = qops.make_state(kind, dt, m, "q")
                    cur, ref = q, q.dequantize()
                    ok, why = True, ""
                    for step in prog:
                        try:
                            nref = cat[step].fn(ref, None)
                        except Exception:
                            break
                        try:
                            cur = cat[step].fn(cur, None)
                        except Exception as e:  # noqa
                            ok, why = False, f"step {step} raised {type(e).__name__}: {e}"
                            break
                        ref = nref
                        mp = qops.metadata_problems(cur)
                        if mp:
                            ok, why = False, f"after {step}: {mp[0]}"
                            break
                    if ok:
                        A, B = m.read(qops.deq(cur)).reshape(-1), m.read(ref).reshape(-1)
                        if tuple(qops.deq(cur).shape) != tuple(ref.shape):
                            ok, why = False, "shape differs"
                        elif not all(x is y for x, y in zip(A, B)):
                            # rescaling steps: RERR with accumulated tolerance
                            f = tm.FMT[dt]
                            u = Fraction(1, 2 ** f["p"])
                            r = rerr.Rerr(m.ctx)
                            pre = list(r.cons) + [r.tr(t) >= rerr.rv(f["fmin_norm"] * 2**16) for t in sym["scale"].reshape(-1)]
                            worst = "unsat"
                            for x, y in list(zip(A, B))[:2]:
                                for goal in (r.tr(x) - r.tr(y), r.tr(y) - r.tr(x)):
                                    v, secs, mdl = api.solve(pre + [goal > rerr.rv(6 * len(prog) * u) * rerr.zabs(r.tr(y)) + rerr.rv(16 * len(prog) * Fraction(2) ** (f["emin"] - f["p"]))] + [r.tr(t) * 448 <= rerr.rv(f["fmax"]) for t in sym["scale"].reshape(-1)], 30)
                                    if v != "unsat":
                                        worst = v
                            res.query("program-equals-float-program", "RERR", worst, 0.0, sub=f"{prog} on {kind}")
                            if worst == "sat":
                                res.candidate("program", "RERR", dict(kind="program", program=prog, state=kind, dtype=case["dtype"], q=dict(data=api.enc_tensor(q._data), scale=api.enc_tensor(q._scale))))
                            continue
                    res.query("program-equals-float-program", "ALG", "unsat" if ok else "sat", 0.0, sub=f"{prog} on {kind}: {why}")
                    if not ok:
                        res.candidate("program", "ALG", dict(kind="program", program=prog, state=kind, dtype=case["dtype"], q=dict(data=api.enc_tensor(q._data), scale=api.enc_tensor(q._scale))), note=why)
        return
    raise KeyError(case["kind"])


def rebuild(kind, dt, parts):
    from symt import api

    from optimum.quanto.tensor import QBitsTensor, QBytesTensor

    qn, axis, shape = qops.STATES[kind]
    q_t = wq.qt(qn)
    data = api.dec_tensor(parts["data"])
    scale = api.dec_tensor(parts["scale"])
    if q_t.bits == 8:
        data = data.to(q_t.dtype)
        return QBytesTensor(q_t, axis, data.size(), data.stride(), data, scale)
    zp = api.dec_tensor(parts["zp"])
    return QBitsTensor(q_t, axis, None, data.size(), data.stride(), data.to(torch.uint8), scale, zp)


def replay(rec):
    from symt import api

    from optimum.quanto.tensor import QTensor

    inp = rec["inputs"]
    dt = api.DT[inp["dtype"]]
    cat = {o.name: o for o in qops.catalogue()}
    if inp["kind"] == "program":
        q = rebuild(inp["state"], dt, inp["q"])
        cur, ref = q, q.dequantize()
        for step in inp["program"]:
            try:
                nref = cat[step].fn(ref, None)
            except Exception:
                break
            try:
                cur = cat[step].fn(cur, None)
            except Exception as e:  # noqa
                key = ["C05/t-on-1d-raises"] if step == "t" and getattr(cur, "ndim", 2) == 1 else None
                return True, f"program {inp['program']}: step {step} raised {type(e).__name__}: {e}", key
            ref = nref
            mp = qops.metadata_problems(cur)
            if mp:
                return True, f"program {inp['program']}: after {step}: {mp[0]}", None
        a, b = qops.deq(cur).double(), ref.double()
        f = wq.fmt(dt)
        bad = a.shape != b.shape or ((a - b).abs() > 8 * len(inp["program"]) * 2.0 ** -f["p"] * b.abs() + 1e-30).any()
        return bool(bad), f"program {inp['program']}: {a.tolist()} vs float program {b.tolist()}", None
    op = cat[inp["op"]]
    q = rebuild(inp["state"], dt, inp["q"])
    if inp.get("layout") == "transposed" and q._data.ndim >= 2 and q.qtype.bits == 8:
        from optimum.quanto.tensor import QBytesTensor

        d = q._data.transpose(0, -1).contiguous().transpose(0, -1)
        q = QBytesTensor(q.qtype, q.axis, d.size(), d.stride(), d, q._scale)
    o = None
    if "o" in inp:
        o = rebuild("pt8b" if op.second == "per-tensor-3d" else inp["state"], dt, inp["o"]) if "scale" in inp["o"] else api.dec_tensor(inp["o"]["data"])
        if op.second == "same-scale":
            from optimum.quanto.tensor import QBytesTensor

            o = QBytesTensor(o.qtype, o.axis, o.size(), o.stride(), o._data, q._scale)
    try:
        ref = op.fn(qops.deq(q), qops.deq(o) if o is not None else None)
    except Exception as e:  # noqa
        return False, f"float program raises {e}", None
    kn = qops_known(op.name) or qops_known(f"{op.name}@{inp['state']}")
    key = [kn] if kn else None
    try:
        got = op.fn(q, o)
    except Exception as e:  # noqa
        if op.expect_refusal is not None and isinstance(e, op.expect_refusal):
            return False, "documented refusal", None
        if key == ["C05/copy-plain-into-quantized-raises"] and not (type(e) is AttributeError and "qtype" in str(e)):
            key = None  # a different failure of the same program is not the recorded finding
        return True, f"{op.name} on a quantized tensor raises {type(e).__name__}: {e} while the float program is valid", key
    G, R = qops.flatten_results(got), qops.flatten_results(ref)
    if len(G) != len(R):
        return True, f"{op.name}: {len(G)} results vs {len(R)}", None
    f = wq.fmt(R[0].dtype if R[0].dtype.is_floating_point else dt)
    if op.kind == "dtype-move" and wq.fmt(dt)["p"] < f["p"]:
        f = wq.fmt(dt)
    u = 2.0 ** -f["p"]
    probs = []
    for g, r_ in zip(G, R):
        a = qops.deq(g)
        if tuple(a.shape) != tuple(r_.shape) or a.dtype != r_.dtype:
            probs.append(f"result {tuple(a.shape)} {a.dtype} vs float program {tuple(r_.shape)} {r_.dtype}")
            if tuple(a.shape) == tuple(r_.shape) and op.name in ("mul-0dim", "div-0dim"):
                key = ["C05/0dim-tensor-operand-promotes-dtype"]
            continue
        if op.kind in ("move", "move2", "exact", "float", "compare"):
            same = torch.equal(torch.nan_to_num(a.double(), nan=1.2345e9), torch.nan_to_num(r_.double(), nan=1.2345e9))
            if not same:
                probs.append(f"result {a.tolist()} differs from the float program's {r_.tolist()}")
        elif op.kind in ("rescale", "dtype-move"):
            if ((a.double() - r_.double()).abs() > 6 * u * r_.double().abs() + 1e-30).any():
                probs.append(f"result {a.tolist()} vs float program {r_.tolist()} (beyond float rounding)")
        elif op.kind == "requant":
            step = float(g._scale.max()) if isinstance(g, QTensor) else 0.0
            rel = 0.0
            if isinstance(g, QTensor) and g.qtype.is_floating_point:
                f8 = wq.fmt(g.qtype.dtype)
                rel, step = 1.01 * 2.0 ** -f8["p"], step * 2.0 ** (f8["emin"] - f8["p"]) / 0.51
            if ((a.double() - r_.double()).abs() > 0.51 * step + (6 * u + rel) * r_.double().abs() + 1e-30).any():
                probs.append(f"result {a.tolist()} vs float program {r_.tolist()} (more than one output step {step})")
        elif op.kind == "contract":
            if ((a.double() - r_.double()).abs() > 64 * u * (r_.double().abs() + 1)).any():
                probs.append(f"contraction {a.tolist()} vs {r_.tolist()}")
    if probs and op.name.startswith("inplace-") and len(G) == 1 and isinstance(q, QTensor):
        # known finding only when the receiver is left exactly as it was (the operation ran on a temporary dequantized copy)
        unchanged = type(G[0]) is type(q) and torch.equal(qops.deq(G[0]), qops.deq(q)) and all(torch.equal(getattr(G[0], n_), getattr(q, n_)) for n_ in ("_data", "_scale"))
        key = ["C05/in-place-op-is-noop"] if unchanged else None
    if probs and op.name == "relu-after-overwritten-result" and isinstance(q, QTensor):
        # known finding only for its root cause: the result of the operation carries the operand's own scale tensor, so the
        # in-place copy_ into the result rewrote the OPERAND (its data is untouched, its scale now equals the source's)
        q2 = rebuild(inp["state"], dt, inp["q"])
        r2 = torch.relu(q2)
        aliased = getattr(r2, "_scale", None) is q2._scale and torch.equal(q._data, q2._data) and not torch.equal(q._scale, q2._scale) and torch.equal(q._scale.double(), o._scale.double().expand_as(q._scale))
        key = ["C05/op-result-aliases-operand-scale"] if aliased else None
    if probs and op.name in ("relu-after-negation", "lt-same-scale-after-negation") and isinstance(q, QTensor):
        # known finding only for its root cause: multiplying by a negative scalar leaves the codes and makes the SCALE negative
        neg_scale = isinstance(q * -1.0, QTensor) and bool(((q * -1.0)._scale < 0).all()) and bool((q._scale > 0).all())
        key = ["C05/negative-scale-after-scalar-mul"] if neg_scale else None
    if probs and op.name == "neg" and (q._data == -128).any() if q.qtype.bits == 8 and not q.qtype.is_floating_point else False:
        key = ["C05/neg-of-int8-minimum"]
    return bool(probs), f"{op.name} on state {inp['state']}: " + "; ".join(probs[:3]) if probs else f"{op.name}: equals the float program", key if probs else None


def qops_known(name):
    return KNOWN.get(name)
