"""C15 - AWQ layouts are bijective, match the reference, and denote the same weights (DESIGN.md section 6, C15)."""
import torch

EVIDENCE = dict(
    bounds="every 4-bit code symbolic (BV): v1 packing with and without column reordering on shapes rows in {4,8} x cols in {8,16,24,64}, v2 packing on (4,64), (8,128), (12,192) (quick: first two); v2 vs the reference external/awq/pack_intweight.py (interleave 4, kstride 64) by bit-vector equality of every packed word; representation equivalence on float16 group-128 tensors of shape (4,128) and (8,256) with arbitrary codes, int8 zero-points and positive scales; conversion back (qbits_tensor); non-contiguous sources and view/in-place histories on (8,64); __tensor_flatten__/__tensor_unflatten__ round trip of AWQBitsTensor",
    outside="shapes beyond the bounds (element-count constants >= 2^15 found in the current AWQ source add a concrete, non-solver differential run against the reference packer just above them; none on the pinned tree); the CUDA gemm/gemv kernels that consume the layout; actual device moves; the selection of the optimised class in QBitsTensor.create/optimize (needs a CUDA device object); all of this code is executed on CPU tensors with the four `assert ...device.type == 'cuda'` statements removed in memory (listed in the evidence)",
    assumptions=["the numpy operations used by unpack_v2 and by the reference packer (astype, reshape, transpose, &, |, <<, >>, indexing) are interpreted by a bridge over the same terms", "AWQ modules imported with their device asserts deleted (nothing else changed)"],
)
CASE_DEADLINE = dict(quick=400.0, thorough=1500.0)


def cases(tier, seed):
    out = []
    v1 = [(4, 8), (4, 16), (8, 24), (4, 64)] if tier == "quick" else [(4, 8), (8, 8), (4, 16), (8, 24), (4, 64), (8, 64), (12, 16)]
    v2 = [(4, 64), (8, 128)] if tier == "quick" else [(4, 64), (8, 64), (8, 128), (12, 192), (4, 256)]
    for s in v1:
        for reorder in (False, True):
            out.append(dict(kind="v1", shape=list(s), reorder=reorder))
    for s in v2:
        out.append(dict(kind="v2", shape=list(s)))
    for s in ([(4, 128)] if tier == "quick" else [(4, 128), (8, 256)]):
        out.append(dict(kind="repr", shape=list(s)))
    for s in ([(8, 64)] if tier == "quick" else [(8, 64), (64, 8), (4, 128)]):
        out.append(dict(kind="layouts", shape=list(s)))
    # element-count constants of the current AWQ source beyond symbolic reach (none on the pinned tree): the v2 clauses are run as
    # a CONCRETE differential against the reference packer on shapes just above one and two multiples - not a solver result
    from . import wq

    for V, where in sorted(wq.big_constants(AWQ_FILES).items()):
        K = 4096
        n1 = -(-V // K // 4) * 4 + 4
        for N in (n1, 2 * n1 - 4):
            out.append(dict(kind="v2-large", shape=[N, K], constant=f"{V} at {where[0]}", deadline=900.0))
    return out


AWQ_FILES = ["optimum/quanto/tensor/qbits/awq/packed.py", "optimum/quanto/tensor/qbits/awq/qbits.py"]


def setup():
    from symt import awqload

    awqload.install()
    import optimum.quanto  # noqa
    from optimum.quanto.tensor.qbits.awq import packed, qbits

    return packed, qbits, awqload.REMOVED


def repr_inputs(shape, seed=0):
    g = torch.Generator().manual_seed(seed + 3)
    N, K = shape
    ngroups = N * (K // 128)
    data = torch.randint(0, 16, (ngroups, 128), generator=g, dtype=torch.uint8)  # grouped codes (axis 0, group 128)
    scale = (torch.rand((ngroups, 1), generator=g) * 0.05 + 0.01).to(torch.float16)
    zp = torch.randint(-20, 30, (ngroups, 1), generator=g, dtype=torch.int8)
    return data, scale, zp


def run_case(case, res):
    import numpy as np
    import z3

    from symt import api, bit
    from symt.api import Session
    from symt.npbridge import NumpyBridge

    P, Q, removed = setup()
    res.notes.append("asserts removed in memory: " + "; ".join(removed))
    shape = tuple(case["shape"])
    if case["kind"] == "v2-large":
        for gseed in (0, 1):
            rec_ = dict(inputs=dict(kind="v2", gen=dict(shape=list(shape), seed=gseed)))
            bad, msg, _ = replay(rec_)
            res.side_ok("v2-large-concrete-differential", not bad, f"{shape} seed {gseed} ({case['constant']}): {msg}")
            res.notes.append(f"{shape}: beyond symbolic reach ({case['constant']}); concrete differential only, the universal claim is undecided at this size")
            if bad:
                res.side[-1]["replayed"] = True
                res.candidate("v2-large", "concrete", rec_["inputs"], exact=True)
        return

    def eq_query(name, A, B, X, extra_pre=(), sub=""):
        ctx = m.ctx
        b = bit.Bit(ctx)
        pre = [z3.ULT(b.tr(t), 16) for t in X.reshape(-1)] + list(extra_pre)
        A, B = list(np.asarray(A, dtype=object).reshape(-1)), list(np.asarray(B, dtype=object).reshape(-1))
        if len(A) != len(B):
            res.side_ok(name + "-shape", False, f"{len(A)} vs {len(B)} elements")
            return "sat", None, b
        neq = []
        for a, c in zip(A, B):
            if a is c:
                continue
            if a.dt != c.dt:
                a = ctx.cast(a, c.dt)
            neq.append(b.tr(a) != b.tr(c))
        if not neq:
            res.query(name, "ALG", "unsat", 0.0, sub=sub, nvars=X.size)
            return "unsat", None, b
        v, secs, mdl = api.solve(pre + [z3.Or(*neq)], 200)
        res.query(name, "BIT", v, secs, sub=sub, nvars=X.size)
        return v, mdl, b

    if case["kind"] == "layouts":
        # packing a NON-CONTIGUOUS matrix (transposed view, column slice) and a multi-step history on one packed tensor
        for name, mk in (("transposed-view", lambda: torch.randint(0, 16, (shape[1], shape[0]), dtype=torch.uint8).t()), ("column-slice", lambda: torch.randint(0, 16, (shape[0], 2 * shape[1]), dtype=torch.uint8)[:, ::2])):
            for packing, reorder in ((P.AWQPacking.V1, False), (P.AWQPacking.V1, True), (P.AWQPacking.V2, False)):
                if packing == P.AWQPacking.V2 and (shape[1] % 64 or shape[0] % 4):
                    continue  # the v2 layout is defined for in_features % 64 == 0 and out_features % 4 == 0 only
                x = mk()
                xc = x.contiguous().clone()
                with Session(res) as m, NumpyBridge(m):
                    X = m.symbolic(xc, "x")
                    xv = xc.t().contiguous().t() if name == "transposed-view" else torch.stack([xc, xc], dim=-1).reshape(xc.shape[0], -1)[:, ::2]
                    t = P.AWQPackedTensor.pack(xv, packing=packing, reorder=reorder)
                    U = m.read(t.unpack())
                    # history: take a view result through dispatch, modify it in place, convert again
                    v1 = t[:2]
                    v1 += 1
                    U2 = m.read(t.unpack())
                    U3 = m.read(t.clone())
                v, mdl, b = eq_query("non-contiguous-pack-unpack", U, X, X, sub=f"{name} {packing} reorder={reorder} {tuple(x.shape)}")
                if v == "sat":
                    vals = api.model_values(b, mdl, X) if mdl is not None else xc.reshape(-1).tolist()
                    res.candidate("layouts", "BIT", dict(kind="layouts", layout=name, packing=str(packing), reorder=reorder, x=api.enc_tensor(api.tensor_from_values(vals, tuple(xc.shape), torch.uint8))), exact=True)
                for nm, UU in (("unpack-after-view-mutation", U2), ("clone-after-view-mutation", U3)):
                    v, mdl, b = eq_query("results-of-dispatch-do-not-alias-hidden-state", UU, X, X, sub=f"{nm} {name} {packing}")
                    if v == "sat":
                        vals = api.model_values(b, mdl, X) if mdl is not None else xc.reshape(-1).tolist()
                        res.candidate("layouts", "BIT", dict(kind="layouts", layout=name, packing=str(packing), reorder=reorder, x=api.enc_tensor(api.tensor_from_values(vals, tuple(xc.shape), torch.uint8))), exact=True)
        return

    if case["kind"] == "v1":
        x = torch.randint(0, 16, shape, dtype=torch.uint8)
        with Session(res) as m, NumpyBridge(m):
            X = m.symbolic(x, "x")
            t = P.AWQPackedTensor.pack(x, packing=P.AWQPacking.V1, reorder=case["reorder"])
            u = t.unpack()
            U, PK = m.read(u), m.read(t._data)
        ok_meta = tuple(u.shape) == shape and t._data.dtype == torch.int32 and tuple(t._data.shape) == (shape[0], shape[1] // 8)
        res.side_ok("v1-packed-shape-dtype", ok_meta, f"{shape} reorder={case['reorder']}: packed {tuple(t._data.shape)} {t._data.dtype}")
        v, mdl, b = eq_query("v1-unpack-inverts-pack", U, X, X, sub=f"{shape} reorder={case['reorder']}")
        if v == "sat" or not ok_meta:
            vals = api.model_values(b, mdl, X) if mdl is not None else x.reshape(-1).tolist()
            res.candidate("v1", "BIT", dict(kind="v1", reorder=case["reorder"], x=api.enc_tensor(api.tensor_from_values(vals, shape, torch.uint8))), exact=True)
        # bijectivity of the layout: every packed word is determined by 8 distinct inputs and every input appears once
        from symt import terms as tm

        sups = [tm.support([w]) for w in PK.reshape(-1)]
        allv = [v_ for s in sups for v_ in s]
        res.side_ok("v1-layout-is-a-partition-of-the-inputs", all(len(s) == 8 for s in sups) and len(allv) == len(set(allv)) == x.numel(), f"{shape}")
        return

    if case["kind"] == "v2":
        import sys

        sys.path.insert(0, api.__file__.rsplit("/symt/", 1)[0])
        import importlib.util
        import os

        from symt.harness import REPO

        spec = importlib.util.spec_from_file_location("ref_pack_intweight", os.path.join(REPO, "external/awq/pack_intweight.py"))
        ref = importlib.util.module_from_spec(spec)
        spec.loader.exec_module(ref)
        x = torch.randint(0, 16, shape, dtype=torch.uint8)
        with Session(res) as m, NumpyBridge(m):
            X = m.symbolic(x, "x")
            t = P.AWQPackedTensor.pack(x, packing=P.AWQPacking.V2)
            u = t.unpack()
            U, PK = m.read(u), m.read(t._data)
            r = ref.pack_intweight(x.to(torch.int32), interleave=4, kstride=64)
            R = m.read(r)
        ok_meta = tuple(u.shape) == shape and t._data.dtype == torch.int16 and tuple(t._data.shape) == (shape[0] // 4, shape[1]) and tuple(r.shape) == tuple(t._data.shape) and r.dtype == torch.int16
        res.side_ok("v2-packed-shape-dtype", ok_meta, f"{shape}: packed {tuple(t._data.shape)} {t._data.dtype}, reference {tuple(r.shape)} {r.dtype}")
        v, mdl, b = eq_query("v2-unpack-inverts-pack", U, X, X, sub=f"{shape}")
        if v == "sat" or not ok_meta:
            vals = api.model_values(b, mdl, X) if mdl is not None else x.reshape(-1).tolist()
            res.candidate("v2", "BIT", dict(kind="v2", x=api.enc_tensor(api.tensor_from_values(vals, shape, torch.uint8))), exact=True)
        v, mdl, b = eq_query("v2-identical-to-reference-packer", PK, R, X, sub=f"{shape}")
        if v == "sat":
            vals = api.model_values(b, mdl, X)
            res.candidate("v2-ref", "BIT", dict(kind="v2", x=api.enc_tensor(api.tensor_from_values(vals, shape, torch.uint8))), exact=True)
        from symt import terms as tm

        sups = [tm.support([w]) for w in PK.reshape(-1)]
        allv = [v_ for s in sups for v_ in s]
        res.side_ok("v2-layout-is-a-partition-of-the-inputs", all(len(s) == 4 for s in sups) and len(allv) == len(set(allv)) == x.numel(), f"{shape}")
        return

    if case["kind"] == "repr":
        from optimum.quanto import qint4
        from optimum.quanto.tensor.qbits import QBitsTensor

        data, scale, zp = repr_inputs(shape)
        size, stride = torch.Size(shape), (shape[1], 1)
        with Session(res) as m, NumpyBridge(m):
            D, S, Z = m.symbolic(data, "c"), m.symbolic(scale, "s"), m.symbolic(zp, "z")
            std = QBitsTensor(qint4, 0, 128, size, stride, data, scale, zp)
            awq = Q.AWQBitsTensor(qint4, 0, 128, size, stride, data, scale, zp)
            A, B = m.read(awq.dequantize()), m.read(std.dequantize())
            # flatten / unflatten (what torch.compile and subclass tracing do): same class, same denotation
            flat_err, RT, rt_type = None, None, None
            try:
                inner, meta = awq.__tensor_flatten__()
                rt = type(awq).__tensor_unflatten__({n_: getattr(awq, n_) for n_ in inner}, meta, None, None)
                rt_type = type(rt).__name__
                RT = m.read(rt.dequantize())
            except Exception as e:  # noqa
                flat_err = f"{type(e).__name__}: {e}"
            back_err = None
            try:
                back = awq.qbits_tensor()
                BK = (m.read(back._data.unpack()), m.read(back._scale), m.read(back._zeropoint))
                back_deq = m.read(back.dequantize())
            except Exception as e:  # noqa
                back_err = f"{type(e).__name__}: {e}"
        ctx = m.ctx
        res.side_ok("awq-dequantize-shape", A.shape == B.shape == tuple(shape), f"{A.shape} {B.shape}")
        ok_flat = flat_err is None and rt_type == type(awq).__name__ and RT.shape == A.shape and all(x_ is y_ for x_, y_ in zip(RT.reshape(-1), A.reshape(-1)))
        res.query("flatten-unflatten-preserves-class-and-denotation", "ALG", "unsat" if ok_flat else "sat", 0.0, sub=f"{shape}: {flat_err or rt_type}", nvars=D.size + S.size + Z.size)
        if not ok_flat:
            res.candidate("flatten", "ALG", dict(kind="flatten", shape=list(shape), c=api.enc_tensor(data), s=api.enc_tensor(scale), z=api.enc_tensor(zp)), exact=True)
        mp = api.unpack_lemma(ctx, list(B.reshape(-1)) + list(A.reshape(-1)), 4, None) or {}
        A2, B2 = api.subst(ctx, list(A.reshape(-1)), mp), api.subst(ctx, list(B.reshape(-1)), mp)
        # representation equivalence: s*q + (-(z*s)) vs s*(q - z), per element, within one float16 rounding; the operands of each
        # element (its code, its group's scale and zero-point) are arbitrary: decided on the first element of each group
        b = bit.Bit(ctx)
        f32 = z3.FPSort(8, 24)
        fin = lambda e: z3.Not(z3.Or(z3.fpIsNaN(e), z3.fpIsInf(e)))  # noqa
        N, K = shape
        picks = sorted({g * 128 + o for g in range(N * (K // 128)) for o in (0, 77)})[:6]
        from fractions import Fraction

        from symt import rerr
        from symt import terms as tm

        f16 = tm.FMT[torch.float16]
        u, eta = Fraction(1, 2 ** f16["p"]), Fraction(2) ** (f16["emin"] - f16["p"])
        for p in picks:
            # RERR: the AWQ form rounds s*q, s*z and their sum; the standard form rounds s*(q-z): they agree within a few
            # float16 roundings OF THE TERMS INVOLVED (|s|*(q+|z|)); zero-points below -112 (int8 wrap of the standard form,
            # known finding) are fenced off and asked for separately
            gi, ki = (p // K) * (K // 128) + (p % K) // 128, (p % K) % 128
            r = rerr.Rerr(ctx)
            ar, cr = r.tr(A2[p]), r.tr(B2[p])
            sr, qr, zr = r.tr(S[gi, 0]), r.tr(D[gi, ki]), r.tr(Z[gi, 0])
            pre = r.cons + [zr >= -112, qr <= 15, sr > 0] + [ob for kind_, ob, t_ in r.oblig if kind_ == "intwrap"]
            bad = False
            for side, goal in enumerate((ar - cr, cr - ar)):
                v, secs, mdl = api.solve(pre + [goal > rerr.rv(4 * u) * sr * (qr + rerr.zabs(zr)) + rerr.rv(8 * eta)], 100)
                res.query("awq-dequantize-equals-standard-dequantize", "RERR", v, secs, sub=f"{shape} element {p} side{side}")
                if v == "sat":
                    dv, sv, zv = data.clone(), scale.clone(), zp.clone()
                    dv[gi, ki] = int(api.real_model_values(r, mdl, [D[gi, ki]], torch.uint8)[0])
                    sv[gi, 0] = api.real_model_values(r, mdl, [S[gi, 0]], torch.float16)[0]
                    zv[gi, 0] = int(api.real_model_values(r, mdl, [Z[gi, 0]], torch.int8)[0])
                    res.candidate("repr", "RERR", dict(kind="repr", shape=list(shape), c=api.enc_tensor(dv), s=api.enc_tensor(sv), z=api.enc_tensor(zv)), exact=False)
                    bad = True
            if bad:
                break
        a, c_ = b.tr(A2[0]), b.tr(B2[0])
        v, secs, mdl = api.solve([z3.ULT(b.tr(t), 16) for t in D.reshape(-1) if t.args[0] in b.vars] + [b.tr(Z.reshape(-1)[0]) < -112, z3.Not(z3.fpEQ(a, c_)), fin(a), fin(c_)], 60)
        res.query("known-region-witness", "BIT", v if v == "unknown" else "unsat", secs, sub=f"standard-dequantize-int8-wrap: {'violating witness found' if v == 'sat' else 'none'}")
        if v == "sat":
            res.candidate("region-witness:standard-int8-wrap", "BIT", dict(kind="repr", shape=list(shape), c=api.enc_tensor(api.tensor_from_values(api.model_values(b, mdl, D), tuple(data.shape), torch.uint8)), s=api.enc_tensor(api.tensor_from_values(api.model_values(b, mdl, S), tuple(scale.shape), torch.float16)), z=api.enc_tensor(api.tensor_from_values(api.model_values(b, mdl, Z), tuple(zp.shape), torch.int8))), exact=False)
        # conversion back to the standard representation restores codes, scales and zero-points
        if back_err is not None:
            ok_back = False
            detail = back_err
        else:
            same = lambda X_, Y_: X_.shape == Y_.shape and all(x_ is y_ for x_, y_ in zip(X_.reshape(-1), Y_.reshape(-1)))  # noqa
            codes_ok = api.equal_modulo_bits(ctx, BK[0], D, 4, None) if BK[0].shape == D.shape else False
            ok_back = bool(codes_ok) and same(BK[1], S) and BK[2].shape == Z.shape and all(x_ is y_ for x_, y_ in zip(BK[2].reshape(-1), Z.reshape(-1)))
            detail = f"codes {BK[0].shape} vs {D.shape} equal={codes_ok}; scale identical={same(BK[1], S)}; zero-point dtype {back._zeropoint.dtype} shape {BK[2].shape}"
        res.query("conversion-back-restores-codes-scales-zeropoints", "ALG", "unsat" if ok_back else "sat", 0.0, sub=f"{shape}: {detail}" + (" [known region]" if not ok_back else ""), nvars=D.size + S.size + Z.size)
        if not ok_back:
            res.candidate("region-witness:qbits_tensor", "ALG", dict(kind="back", shape=list(shape), c=api.enc_tensor(data), s=api.enc_tensor(scale), z=api.enc_tensor(zp)), exact=False)
        return
    raise KeyError(case["kind"])


def replay(rec):
    from symt import api

    P, Q, removed = setup()
    inp = rec["inputs"]
    if inp["kind"] == "layouts":
        xc = api.dec_tensor(inp["x"])
        xv = xc.t().contiguous().t() if inp["layout"] == "transposed-view" else torch.stack([xc, xc], dim=-1).reshape(xc.shape[0], -1)[:, ::2]
        packing = P.AWQPacking.V2 if "V2" in inp["packing"] else P.AWQPacking.V1
        t = P.AWQPackedTensor.pack(xv, packing=packing, reorder=inp["reorder"])
        probs = []
        if not torch.equal(t.unpack().to(torch.uint8), xc):
            probs.append("unpack(pack(non-contiguous x)) != x")
        v1 = t[:2]
        v1 += 1
        if not torch.equal(t.unpack().to(torch.uint8), xc) or not torch.equal(t.clone().to(torch.uint8), xc):
            probs.append("modifying the result of an earlier operation changed what the packed tensor converts to")
        return bool(probs), "; ".join(probs) or "layouts ok", None
    if inp["kind"] in ("v1", "v2"):
        if "gen" in inp:
            x = torch.randint(0, 16, tuple(inp["gen"]["shape"]), generator=torch.Generator().manual_seed(inp["gen"]["seed"]), dtype=torch.uint8)
        else:
            x = api.dec_tensor(inp["x"])
        if inp["kind"] == "v1":
            t = P.AWQPackedTensor.pack(x, packing=P.AWQPacking.V1, reorder=inp["reorder"])
            u = t.unpack()
            bad = u.shape != x.shape or not torch.equal(u.to(torch.uint8), x)
            return bad, f"v1 reorder={inp['reorder']}: unpack(pack(x)) {'!=' if bad else '=='} x", None
        import importlib.util
        import os

        from symt.harness import REPO

        spec = importlib.util.spec_from_file_location("ref_pack_intweight", os.path.join(REPO, "external/awq/pack_intweight.py"))
        ref = importlib.util.module_from_spec(spec)
        spec.loader.exec_module(ref)
        t = P.AWQPackedTensor.pack(x, packing=P.AWQPacking.V2)
        u = t.unpack()
        r = ref.pack_intweight(x.to(torch.int32), interleave=4, kstride=64)
        probs = []
        if u.shape != x.shape or not torch.equal(u.to(torch.uint8), x):
            i = (u.to(torch.uint8) != x).nonzero()[0].tolist() if u.shape == x.shape else None
            probs.append(f"unpack_v2(pack_v2(x)) != x at {i}: {u[tuple(i)].item() if i else ''} vs {x[tuple(i)].item() if i else ''}")
        if r.shape != t._data.shape or not torch.equal(r, t._data):
            probs.append("pack_v2 differs from the reference pack_intweight")
        return bool(probs), "; ".join(probs) or "v2 ok", None
    from optimum.quanto import qint4
    from optimum.quanto.tensor.qbits import QBitsTensor

    shape = tuple(inp["shape"])
    data, scale, zp = api.dec_tensor(inp["c"]), api.dec_tensor(inp["s"]), api.dec_tensor(inp["z"])
    size, stride = torch.Size(shape), (shape[1], 1)
    std = QBitsTensor(qint4, 0, 128, size, stride, data, scale, zp)
    awq = Q.AWQBitsTensor(qint4, 0, 128, size, stride, data, scale, zp)
    if inp["kind"] == "flatten":
        try:
            inner, meta = awq.__tensor_flatten__()
            rt = type(awq).__tensor_unflatten__({n_: getattr(awq, n_) for n_ in inner}, meta, None, None)
            a, b = rt.dequantize().float(), awq.dequantize().float()
            bad = type(rt) is not type(awq) or a.shape != b.shape or not torch.equal(torch.nan_to_num(a), torch.nan_to_num(b))
            n = int((a != b).sum()) if a.shape == b.shape else -1
            return bad, f"flatten/unflatten of an AWQBitsTensor gives a {type(rt).__name__} whose dequantized values differ in {n} of {b.numel()} elements", None
        except Exception as e:  # noqa
            return True, f"flatten/unflatten of an AWQBitsTensor raises {type(e).__name__}: {e}", None
    if inp["kind"] == "repr":
        a, b = awq.dequantize().float(), std.dequantize().float()
        fin = torch.isfinite(a) & torch.isfinite(b)
        from optimum.quanto.tensor.qbits import ungroup

        mag = ungroup(scale.float().abs() * torch.maximum(data.float(), zp.float().abs()), 0, size)
        mag = ungroup(scale.float().abs() * (data.float() + zp.float().abs()), 0, size)
        badm = ((a - b).abs() > 2.0**-9 * mag + 2.0**-20) & fin
        bad = badm.any().item()
        i = badm.nonzero()
        key = None
        if bad:
            rows = {int(j[0]) * (shape[1] // 128) + int(j[1]) // 128 for j in i}
            if all(int(zp.reshape(-1)[g]) < -112 for g in rows):
                key = ["C15/standard-dequantize-int8-wrap"]
        return bool(bad), f"AWQ dequantize vs standard dequantize differ beyond one float16 rounding at {i[0].tolist() if len(i) else None}: {a[tuple(i[0])].item() if len(i) else ''} vs {b[tuple(i[0])].item() if len(i) else ''}", key
    try:
        back = awq.qbits_tensor()
        ok = back._zeropoint.dtype == torch.int8 and torch.equal(back._data.unpack(), data) and torch.equal(back._scale, scale) and torch.equal(back._zeropoint, zp) and torch.equal(torch.nan_to_num(back.dequantize()), torch.nan_to_num(std.dequantize()))
        detail = f"zero-point dtype {back._zeropoint.dtype}, codes shape {tuple(back._data.unpack().shape)} (expected {tuple(data.shape)})"
    except Exception as e:  # noqa
        ok, detail = False, f"{type(e).__name__}: {e}"
    return (not ok), f"AWQBitsTensor.qbits_tensor() does not restore the standard representation: {detail}", (["C15/qbits_tensor-conversion-back"] if not ok else None)
