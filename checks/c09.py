"""C09 - freeze() preserves outputs bit-for-bit, is idempotent and compacts storage (DESIGN.md section 6, C09)."""
import copy
import itertools

import torch

from . import models, wq

EVIDENCE = dict(
    bounds="all parameters and the input symbolic; modules Linear(3,2), Linear(160,1) (automatic group size 32), Conv2d(1,2,2), LayerNorm+Linear, MLP; six weight qtypes; activations None/qint8 (quick) + qfloat8 (thorough); float32 (quick: every module kind) + float16/bfloat16 (thorough: every module kind; quick: Linear(3,2) with four histories); lifecycle histories of length <= 4 over {forward, calibrate, freeze, deepcopy, to(cpu)} (8 fixed histories in quick, 40 in thorough); mixed quantization (first module with quantized activations, the next weights-only) on the MLP; partially frozen models: a two-layer MLP with one module frozen by hand before freeze(model) (3 histories)",
    outside="device moves to CUDA/MPS; architectures other than the enumerated ones (the architecture is enumerated, not solved); float16 deepcopy of packed payloads beyond these shapes",
    assumptions=[
        "ALG: two output tensors are bit-identical for every input when their element terms are identical (hash-consed terms over uninterpreted float operations: holds under any float semantics); when terms differ the disequality is asked in BIT and the model replayed",
        "storage clauses are value-independent side conditions evaluated on each run",
    ],
)
CASE_DEADLINE = dict(quick=300.0, thorough=1500.0)
ALLQ = wq.QT8 + wq.QTB
HIST_QUICK = [
    ["freeze", "freeze", "deepcopy", "to"],
    ["calibrate", "freeze", "deepcopy", "freeze"],
    ["deepcopy", "freeze", "to", "freeze"],
    ["freeze", "calibrate", "freeze", "deepcopy"],
    ["forward", "freeze", "forward", "freeze"],
    ["to", "freeze", "deepcopy", "deepcopy"],
    ["freeze", "deepcopy", "calibrate", "to"],
    ["calibrate", "calibrate", "freeze", "freeze"],
]


HIST_PARTIAL = [
    ["freeze-one", "freeze", "forward", "freeze"],
    ["freeze-last", "deepcopy", "freeze", "to"],
    ["calibrate", "freeze-one", "forward", "freeze"],
]


def histories(tier):
    if tier == "quick":
        return HIST_QUICK
    ops = ["forward", "calibrate", "freeze", "deepcopy", "to"]
    allh = [list(h) for n in (2, 3, 4) for h in itertools.product(ops, repeat=n) if "freeze" in h]
    return HIST_QUICK + allh[:: max(1, len(allh) // 32)]


def cases(tier, seed):
    out = []
    kinds = ["linear", "conv", "linear-wide"] if tier == "quick" else ["linear", "conv", "linear-wide", "lnorm", "mlp"]
    acts = [None, "qint8"] if tier == "quick" else [None, "qint8", "qfloat8_e4m3fn"]
    dts = ["float32"] if tier == "quick" else ["float32", "float16", "bfloat16"]
    hs = histories(tier)
    for dt in dts:
        for kind in kinds:
            for q in ALLQ:
                for a in acts:
                    if kind == "linear-wide" and (q in wq.QT8 or a is not None):
                        continue
                    out.append(dict(kind=kind, dtype=dt, qtype=q, act=a, histories=hs if kind != "linear-wide" else hs[:2]))
        # mixed quantization (first module with quantized activations, the next weights-only) on the MLP; partially frozen models: one module frozen by hand (or the model quantized and frozen in two steps) before freeze(model)
        for q in ALLQ if tier == "thorough" else ["qint8", "qint4", "qfloat8_e4m3fn"]:
            for a in acts[:2]:
                out.append(dict(kind="mlp", dtype=dt, qtype=q, act=a, histories=HIST_PARTIAL))
    # mixed quantization: a weights-only module fed the quantized activations of its predecessor
    for q in (["qint8", "qfloat8_e4m3fn", "qint4"] if tier == "quick" else ALLQ):
        for a in acts[1:]:
            out.append(dict(kind="mlp", dtype="float32", qtype=q, act=a, mixed=True, histories=hs[:4]))
    if tier == "quick":
        # half-precision modules (a dtype-specific freezing path rounds differently from the dynamic one): one module kind
        for dt in ("float16", "bfloat16"):
            for q in ALLQ:
                for a in acts:
                    out.append(dict(kind="linear", dtype=dt, qtype=q, act=a, histories=hs[:4]))
    return out


def storage_problems(model):
    """value-independent storage clauses on a frozen model"""
    from optimum.quanto.nn import QModuleMixin
    from optimum.quanto.tensor import QBitsTensor, QBytesTensor

    probs = []
    for n, mod in model.named_modules():
        if not isinstance(mod, QModuleMixin) or mod.weight_qtype is None:
            continue
        w = mod.weight
        qt_ = mod.weight_qtype
        if not mod.frozen:
            probs.append(f"{n}: not frozen after freeze()")
            continue
        if w.qtype != qt_:
            probs.append(f"{n}: stored qtype {w.qtype} != requested {qt_}")
        out_f = w.shape[0]
        if qt_.bits == 8:
            if not isinstance(w, QBytesTensor) or w._data.dtype != qt_.dtype or tuple(w._data.shape) != tuple(w.shape) or w._scale.numel() != out_f:
                probs.append(f"{n}: 8-bit storage {type(w).__name__} data {w._data.dtype}{tuple(w._data.shape)} scale {tuple(w._scale.shape)}")
        else:
            if not isinstance(w, QBitsTensor):
                probs.append(f"{n}: {type(w).__name__}")
                continue
            logical = tuple(w._data.shape)
            rows, cols = logical[0], int(torch.tensor(logical[1:]).prod()) if len(logical) > 1 else 1
            payload = w._data._data
            exp_rows = -(-rows * qt_.bits // 8)
            per_out = w.numel() // out_f
            groups = out_f * (per_out // (mod.weight_group_size or per_out))
            if payload.dtype != torch.uint8 or payload.numel() != exp_rows * cols or w._scale.numel() != groups or w._zeropoint.numel() != groups:
                probs.append(f"{n}: low-bit storage payload {payload.dtype}{tuple(payload.shape)} for logical {logical}, scale {tuple(w._scale.shape)} zeropoint {tuple(w._zeropoint.shape)}, expected {exp_rows}x{cols} bytes and {groups} groups")
    return probs


def run_history(model, x, hist, read, calibrate_input=None):
    """executes a lifecycle history; `read(t)` turns an output tensor into comparable content.
    returns list of (step index, step, problem)"""
    from optimum.quanto import Calibration, freeze

    probs = []
    cur = model

    def out():
        with torch.no_grad():
            y = cur(x)
        return read(y.dequantize() if hasattr(y, "dequantize") else y), y

    last, _ = out()
    frozen_once = False
    for i, step in enumerate(hist):
        if step == "forward":
            new, _ = out()
            if not same(new, last):
                probs.append((i, step, "repeated forward differs"))
            continue
        if step == "calibrate":
            with torch.no_grad(), Calibration(streamline=False):
                cur(calibrate_input if calibrate_input is not None else x)
            last, _ = out()
            continue
        state_before = {n: read(b) for n, b in cur.named_buffers()}
        state_before.update({n: read(p) for n, p in cur.named_parameters() if n.endswith("bias")})
        wobjs = {n: m.weight for n, m in cur.named_modules() if hasattr(m, "weight") and getattr(m, "frozen", False)}
        try:
            if step == "freeze":
                freeze(cur)
            elif step in ("freeze-one", "freeze-last"):
                from optimum.quanto.nn import QModuleMixin

                qms = [m_ for m_ in cur.modules() if isinstance(m_, QModuleMixin)]
                (qms[0] if step == "freeze-one" else qms[-1]).freeze()
            elif step == "deepcopy":
                cur = copy.deepcopy(cur)
            elif step == "to":
                cur = cur.to("cpu")
        except Exception as e:  # noqa
            probs.append((i, step, f"raised {type(e).__name__}: {e}"))
            break
        new, _ = out()
        if not same(new, last):
            probs.append((i, step, "output changed"))
        if step == "freeze":
            sp = storage_problems(cur)
            probs += [(i, step, p) for p in sp]
            if frozen_once or wobjs:
                for n, m in cur.named_modules():
                    if n in wobjs and m.weight is not wobjs[n] and not same(read_q(m.weight, read), read_q(wobjs[n], read)):
                        probs.append((i, step, f"second freeze changed the stored weight of {n}"))
            frozen_once = True
        state_after = {n: read(b) for n, b in cur.named_buffers()}
        state_after.update({n: read(p) for n, p in cur.named_parameters() if n.endswith("bias")})
        for n in state_before:
            if n in state_after and not same(state_before[n], state_after[n]):
                probs.append((i, step, f"{n} changed"))
        last = new
    return probs


def read_q(w, read):
    from optimum.quanto.tensor import QBitsTensor, QBytesTensor

    if isinstance(w, QBytesTensor):
        return [read(w._data), read(w._scale)]
    if isinstance(w, QBitsTensor):
        return [read(w._data._data), read(w._scale), read(w._zeropoint)]
    return [read(w)]


SYM_EQ = [None]  # installed by symbolic runs: decides equality of two term arrays that are not identical
MISMATCH = []  # (terms a, terms b) of symbolic comparisons that failed: used to solve for a distinguishing input


def distinguishing_inputs(ctx, timeout=60):
    """solve, in exact real arithmetic, for values of the symbolic inputs under which a mismatching pair really differs;
    returns {tensor name: {index tuple: value}} or None"""
    import re

    import z3

    from symt import api, rerr

    for A, B in MISMATCH[:2]:
        try:
            bits_mp = {}
            r = rerr.Rerr(ctx, ideal=True)
            neq = [r.tr(x) != r.tr(y) for x, y in zip(A.reshape(-1), B.reshape(-1)) if x is not y]
            if not neq:
                continue
            v, secs, mdl = api.solve(r.cons + [z3.Or(*neq)], timeout)
        except NotImplementedError:
            continue
        if v != "sat":
            continue
        out = {}
        for name, t in ctx.vars.items():
            mm = re.match(r"(.*?)(?:\[([0-9,]*)\])?$", name)
            base, idx = mm.group(1), tuple(int(i) for i in mm.group(2).split(",")) if mm.group(2) else ()
            val = api.real_model_values(r, mdl, [t], t.dt)[0]
            out.setdefault(base, {})[idx] = val
        return out
    return None


def same(a, b):
    if isinstance(a, list):
        return len(a) == len(b) and all(same(x, y) for x, y in zip(a, b))
    if isinstance(a, torch.Tensor):
        return a.shape == b.shape and a.dtype == b.dtype and torch.equal(torch.nan_to_num(a.float(), nan=12345.0), torch.nan_to_num(b.float(), nan=12345.0))
    import numpy as np

    if a.shape != b.shape:
        return False
    if all(x is y for x, y in zip(a.reshape(-1), b.reshape(-1))):
        return True
    ok = bool(SYM_EQ[0](a, b)) if SYM_EQ[0] else False
    if not ok:
        MISMATCH.append((a, b))
    return ok


def _quantize(model, qtype_name, act_name, mixed=False):
    """uniform quantization, or (mixed) the first eligible module with quantized activations and the others weights-only: a
    weights-only module then receives the quantized activations of its predecessor"""
    from optimum.quanto import quantize

    w, a = wq.qt(qtype_name), (wq.qt(act_name) if act_name else None)
    if not mixed:
        return quantize(model, weights=w, activations=a)
    elig = [m_ for m_ in model.modules() if type(m_) in (torch.nn.Linear, torch.nn.Conv2d)]
    quantize(model, modules=elig[:1], weights=w, activations=a)
    quantize(model, modules=elig[1:], weights=w)


def run_case(case, res):
    from symt import api
    from symt.api import Session

    from optimum.quanto import quantize

    dt = api.DT[case["dtype"]]
    for hist in case["histories"]:
        model, x = models.make(case["kind"], dt)
        _quantize(model, case["qtype"], case["act"], case.get("mixed", False))
        if case["act"]:
            models.set_scales(model)
        with Session(res) as m:
            P = models.symbolic_params(m, model)
            X = m.symbolic(x, "x")
            bits_ = wq.qt(case["qtype"]).bits
            SYM_EQ[0] = (lambda a, b: api.equal_modulo_bits(m.ctx, a, b, bits_, res)) if bits_ < 8 else None
            del MISMATCH[:]
            probs = run_history(model, x, hist, lambda t: m.read(t) if type(t) in (torch.Tensor, torch.nn.Parameter) else m.read(t.dequantize()))
        nv = x.numel() + sum(v.size for v in P.values())
        res.query("lifecycle-preserves-outputs-and-state", "ALG", "unsat" if not probs else "sat", 0.0, sub=f"{hist}", nvars=nv)
        if probs:
            base = dict(kind=case["kind"], dtype=case["dtype"], qtype=case["qtype"], act=case["act"], mixed=case.get("mixed", False), history=hist, x=api.enc_tensor(x), note=[f"step {i} {s}: {p}" for i, s, p in probs][:4])
            res.candidate("lifecycle", "ALG", base, exact=False)
            if MISMATCH and wq.qt(case["qtype"]).bits < 8:
                # terms differ for low-bit weights: besides the seed, replay weights whose quotients x/scale sit on rounding
                # ties with an odd zero-point (every row/group spans [-1, 2^bits - 2]: scale 1, zero-point 1; elements k + 1/2),
                # the inputs on which two roundings of "the same" formula can disagree
                fm, _ = models.make(case["kind"], dt)
                hi = float(2 ** wq.qt(case["qtype"]).bits - 2)
                pat = torch.tensor([-1.0, hi, 0.5, 1.5])
                pv = {}
                for n, p in fm.named_parameters():
                    if p.ndim >= 2:
                        pv[n] = api.enc_tensor(pat.repeat((p.numel() + 3) // 4)[: p.numel()].reshape(p.shape).to(dt))
                res.candidate("lifecycle", "ALG", dict(base, params=pv), note="rounding-tie weights", exact=False)
            if MISMATCH and wq.qt(case["qtype"]).bits == 8:
                # terms differ: besides the seed, solve for an input under which they really differ (value-specific defects)
                sol = distinguishing_inputs(m.ctx)
                if sol:
                    fm, _ = models.make(case["kind"], dt)
                    pv = {}
                    for n, p in fm.named_parameters():
                        t = p.detach().clone()
                        for idx, val in sol.get(f"p.{n}", {}).items():
                            t[idx] = val
                        pv[n] = api.enc_tensor(t)
                    xv = x.clone()
                    for idx, val in sol.get("x", {}).items():
                        xv[idx] = val
                    res.candidate("lifecycle", "RERR-ideal", dict(base, x=api.enc_tensor(xv), params=pv), exact=False)


def replay(rec):
    from symt import api

    from optimum.quanto import quantize

    inp = rec["inputs"]
    dt = api.DT[inp["dtype"]]
    model, x = models.make(inp["kind"], dt)
    x = api.dec_tensor(inp["x"])
    if inp.get("params"):
        with torch.no_grad():
            for n, p in model.named_parameters():
                if n in inp["params"]:
                    p.copy_(api.dec_tensor(inp["params"][n]))
    _quantize(model, inp["qtype"], inp["act"], inp.get("mixed", False))
    if inp["act"]:
        models.set_scales(model)
    probs = run_history(model, x, inp["history"], lambda t: (t.dequantize() if hasattr(t, "dequantize") else t).detach().clone())
    keys = set()
    for i, s, p in probs:
        if s == "deepcopy" and "raised" in p and wq.qt(inp["qtype"]).bits < 8:
            keys.add("C09/deepcopy-frozen-lowbit-raises")
        else:
            keys.add(None)
    key = None if (not probs or None in keys) else sorted(keys)
    return bool(probs), "\n".join(f"history {inp['history']} step {i} ({s}): {p}" for i, s, p in probs[:5]) or "lifecycle clauses hold", key
