"""C03 - Scale selection is non-saturating, full-range and local to its axis/group (DESIGN.md section 6, C03)."""
import itertools
from fractions import Fraction

import torch

from . import wq

EVIDENCE = dict(
    bounds="value clauses (RERR): rows/groups of 3 symbolic finite elements, case split on which element is the absmax (8-bit) or on the ordering (2/4-bit), float16/bfloat16/float32, all six qtypes, weights (AbsmaxOptimizer/MaxOptimizer via quantize_weight) and activations (absmax_scale); side conditions and locality (ALG support + permutation): ranks 1..4, dims <= 3 (plus shapes (L+1,2), (2,L+1), (2L+1,1), (L/2+1,2), (2,L/2+1) for every integer literal L in 24..1024 that the current source of the optimizers, quantizers, grouping and qweight/qactivation code uses as a possible size threshold - none on the pinned tree), axis in {0,-1} (and None for absmax_scale), every divisor group size; histories: a weight of another float dtype quantized first through the process-wide default optimizers (4 dtype orders), compared with a run in a forked process without that history; same tensor object quantized, rewritten in place in five ways (through .data, by assignment to .data, copy_ / view write under no_grad, Parameter.data) and quantized again, compared with a fresh tensor of the same symbolic content in a forked process",
    outside="custom optimizers; shapes beyond the bounds; CUDA/MPS",
    assumptions=[
        "RERR standard model; overflow of absmax/qmax or max-min is the C16 clause (BIT)",
        "locality is decided syntactically on the term DAG (a term that does not mention a variable does not depend on it) after the bit-packing cut lemmas",
    ],
)
CASE_DEADLINE = dict(quick=300.0, thorough=1200.0)
ALLQ = wq.QT8 + wq.QTB


def _shapes(tier):
    dims = (1, 2, 3)
    if tier == "thorough":
        return [s for r in (1, 2, 3, 4) for s in itertools.product(dims, repeat=r) if max(s) > 1]
    return [(3,), (2, 3), (3, 2), (3, 3), (1, 3), (3, 1), (2, 3, 2), (2, 2, 2), (2, 1, 3, 2), (2, 2, 2, 3)]


def cases(tier, seed):
    out = []
    for dt in ("float16", "bfloat16", "float32"):
        for q in wq.QT8:
            out.append(dict(kind="sym", dtype=dt, qtype=q, source="weight"))
            out.append(dict(kind="sym", dtype=dt, qtype=q, source="activation"))
        for q in wq.QTB:
            out.append(dict(kind="affine", dtype=dt, qtype=q))
    # histories: the default optimizers are process-wide objects; a scale must not depend on what was quantized before
    for q in ALLQ:
        out.append(dict(kind="history", qtype=q))
        out.append(dict(kind="same-object", qtype=q))
    shapes = _shapes(tier) + wq.quantizer_threshold_shapes()  # + shapes straddling the integer size thresholds of the current source (none on the pinned tree)
    n = 5 if tier == "quick" else 10
    for dt in ("float16", "float32") if tier == "quick" else ("float16", "bfloat16", "float32"):
        for q in ALLQ:
            for i in range(0, len(shapes), n):
                out.append(dict(kind="local", dtype=dt, qtype=q, shapes=[list(s) for s in shapes[i : i + n]]))
    return out


def _extreme_cover(term):
    """variables below the max nodes / the min nodes of a term's DAG"""
    from symt import terms as tm

    nodes = {"max": [], "min": []}
    seen, stack = set(), [term]
    while stack:
        t = stack.pop()
        if t.uid in seen:
            continue
        seen.add(t.uid)
        if t.op in nodes:
            nodes[t.op].append(t)
        stack.extend(a for a in t.args if isinstance(a, tm.T))
    return {k: tm.support(v) for k, v in nodes.items()}


def qmax_of(q_t):
    return float(torch.finfo(q_t.dtype).max) if q_t.is_floating_point else float(torch.iinfo(q_t.dtype).max)


def sym_oracle(w, qtype_name, axis, source):
    """concrete C03 clauses for 8-bit types: returns (problems, keys)"""
    from optimum.quanto import absmax_scale, quantize_weight

    q_t = wq.qt(qtype_name)
    f = wq.fmt(w.dtype)
    u = Fraction(1, 2 ** f["p"])
    eta = Fraction(2) ** (f["emin"] - f["p"])
    qm = Fraction(qmax_of(q_t))
    if source == "weight":
        q = quantize_weight(w, q_t, axis)
        scale = q._scale
    else:
        scale = absmax_scale(w, q_t, axis)
    probs, keys = [], set()
    if scale.dtype != w.dtype:
        probs.append(f"scale dtype {scale.dtype} != source dtype {w.dtype}")
    nidx = 1 if axis is None or w.shape[axis] == 1 else w.shape[axis]
    if scale.numel() != nidx:
        probs.append(f"{scale.numel()} scale entries for {nidx} axis indices")
        return probs, keys
    sb = scale.expand(w.shape) if scale.ndim == w.ndim or scale.ndim == 0 else scale.reshape([-1 if d == (axis % w.ndim) else 1 for d in range(w.ndim)]).expand(w.shape)
    wl = w.double()
    # absmax per kept index, computed independently
    if nidx == 1:
        am = wl.abs().max().expand(w.shape)
    else:
        dims = [d for d in range(w.ndim) if d != axis % w.ndim]
        am = wl.abs().amax(dim=dims, keepdim=True).expand(w.shape)
    for i in itertools.product(*[range(s) for s in w.shape]):
        S, A, X = Fraction(float(sb[i])), Fraction(float(am[i])), Fraction(float(wl[i]))
        if float(sb[i]) != float(sb[i]) or abs(float(sb[i])) == float("inf"):
            continue  # non-finite scale: C16's clause
        if S > A / qm * (1 + 4 * u) + 2 * eta:
            region = "float8-weight-scale-uses-127" if (q_t.is_floating_point and source == "weight") else None
            probs.append(f"index {i}: scale {float(S):.6g} larger than absmax/qmax = {float(A/qm):.6g}")
            if region:
                keys.add("C03/" + region)
            else:
                keys.add(None)
        bound = (qm + Fraction(1, 2)) if not q_t.is_floating_point else qm * (1 + Fraction(1, 2 ** wq.fmt(q_t.dtype)["p"]))
        if S > 0 and abs(X) / S > bound * (1 + 4 * u):
            probs.append(f"index {i}: element {float(X)} saturates: |x|/scale = {float(abs(X)/S):.6g} > qmax + 1/2")
            keys.add(None)
    return probs, keys


HIST_ORDERS = [("float16", "float32"), ("float32", "float16"), ("float16", "bfloat16"), ("bfloat16", "float32")]


def _history_terms(qtype_name, first, second, res=None):
    """scale and zero-point terms of a symbolic weight of dtype `second`, optionally after a concrete call in dtype `first`;
    returned as strings (hash-consed terms do not survive a process boundary)"""
    from symt import api
    from symt.api import Session

    from optimum.quanto import quantize_weight

    q_t = wq.qt(qtype_name)
    w2 = torch.tensor([[0.3, -0.2], [0.11, 0.4]], dtype=api.DT[second])
    with Session(res) as m:
        if first is not None:
            for ax in (0, -1):
                quantize_weight(torch.tensor([[0.7, -0.1], [0.2, 0.9]], dtype=api.DT[first]), q_t, ax).dequantize()
        m.symbolic(w2, "w")
        out = []
        for ax in (0, -1):
            q = quantize_weight(w2, q_t, ax)
            out += [t.pretty(14) for t in m.read(q._scale).reshape(-1)]
            if getattr(q, "_zeropoint", None) is not None:
                out += [t.pretty(14) for t in m.read(q._zeropoint).reshape(-1)]
    return out


REWRITES = ["data-copy", "data-assign", "copy-nograd", "param-data-copy", "view-write"]


def _rewrite(w, new, how):
    """replace the content of the tensor OBJECT w by `new` the way user code does between two quantizations (several of these do
    not bump the version counter, none changes the identity of the object)"""
    if how in ("data-copy", "param-data-copy"):
        w.data.copy_(new)
    elif how == "data-assign":
        w.data = new.clone()
    elif how == "copy-nograd":
        with torch.no_grad():
            w.copy_(new)
    elif how == "set":
        with torch.no_grad():
            w.set_(new.clone())
    elif how == "view-write":
        with torch.no_grad():
            w.detach().view(-1)[:] = new.reshape(-1)
    else:
        raise KeyError(how)


def _same_object_run(qtype_name, dtname, how, first_vals, second, axes=(0, -1), symbolic=True, res=None):
    """quantize a tensor object, rewrite its content in place, quantize the SAME object again; returns the second call's scale /
    zero-point / dequantized terms (strings) when symbolic, their values otherwise.  first_vals None: no first call, fresh object."""
    from symt import api
    from symt.api import Session

    from optimum.quanto import quantize_weight

    q_t = wq.qt(qtype_name)
    dt = api.DT[dtname]
    new = second.to(dt)
    param = how == "param-data-copy"

    def body(m):
        if first_vals is None:
            w = new.clone()
            if m is not None:
                m.symbolic(w, "w")
        else:
            w = torch.tensor(first_vals, dtype=dt)
            if param:
                w = torch.nn.Parameter(w)
            with torch.no_grad():
                for ax in axes:
                    quantize_weight(w, q_t, ax).dequantize()
            if m is not None:
                m.symbolic(new, "w")
            _rewrite(w, new, how)
        out = []
        with torch.no_grad():
            for ax in axes:
                q = quantize_weight(w, q_t, ax)
                d = q.dequantize()
                if m is not None:
                    out += [t.pretty(14) for t in m.read(q._scale).reshape(-1)]
                    if getattr(q, "_zeropoint", None) is not None:
                        out += [t.pretty(14) for t in m.read(q._zeropoint).reshape(-1)]
                else:
                    out.append((q._scale.double().reshape(-1).tolist(), d.double().reshape(-1).tolist()))
        return out

    if symbolic:
        with Session(res) as m:
            return body(m)
    return body(None)


def run_case(case, res):
    import numpy as np
    import z3

    from symt import api, rerr
    from symt import terms as tm
    from symt.api import Session
    from symt.rerr import rv, zabs

    from optimum.quanto import absmax_scale, quantize_weight

    from .c02 import specialise

    if case["kind"] == "history":
        for first, second in HIST_ORDERS:
            # both runs start from this process' state (no quantization done yet): one with a history, one without
            fresh = api.fresh_fork(lambda: _history_terms(case["qtype"], None, second))
            after = api.fresh_fork(lambda: _history_terms(case["qtype"], first, second))
            same = fresh == after
            res.query("scale-independent-of-earlier-calls", "ALG", "unsat" if same else "sat", 0.0, sub=f"{first} then {second}", nvars=4)
            if not same:
                d2 = api.DT[second]
                for vals in ([[0.0, 0.0], [1e-6, 2e-6]], [[3e-7, -1e-7], [5e-6, 2e-6]], [[0.3, -0.2], [0.11, 0.4]], [[1e-4, 2e-5], [60000.0, 3.0]]):
                    res.candidate("history", "ALG", dict(kind="history", qtype=case["qtype"], first=first, second=second, w=api.enc_tensor(torch.tensor(vals, dtype=d2)), source="history"), exact=False, cap=8)
        return
    if case["kind"] == "same-object":
        first_vals = [[0.7, -0.1], [0.2, 0.9]]
        for dtname in ("float32", "float16"):
            second = torch.tensor([[0.03, -0.02], [0.011, 0.004]])
            # one axis per history: a one-entry memo would be refreshed by alternating configurations
            for ax in (0, -1):
                fresh = api.fresh_fork(lambda: _same_object_run(case["qtype"], dtname, "data-copy", None, second, axes=(ax,)))
                for how in REWRITES:
                    after = api.fresh_fork(lambda: _same_object_run(case["qtype"], dtname, how, first_vals, second, axes=(ax,)))
                    same = fresh == after
                    res.query("scale-derived-from-current-content-of-the-tensor-object", "ALG", "unsat" if same else "sat", 0.0, sub=f"{dtname} {how} axis={ax}", nvars=4)
                    if not same:
                        for vals in (second.tolist(), [[5.0, -7.0], [0.25, 12.0]], [[0.0, 0.0], [1e-3, 2e-3]]):
                            res.candidate("same-object", "ALG", dict(kind="same-object", qtype=case["qtype"], dtype=dtname, how=how, axis=ax, first=first_vals, w=api.enc_tensor(torch.tensor(vals, dtype=api.DT[dtname])), source="same-object"), exact=False, cap=8)
        return
    dt = api.DT[case["dtype"]]
    q_t = wq.qt(case["qtype"])
    f = tm.FMT[dt]
    u = Fraction(1, 2 ** f["p"])
    eta = Fraction(2) ** (f["emin"] - f["p"])

    if case["kind"] == "sym":
        qm = qmax_of(q_t)
        # "saturate by more than rounding": beyond qmax + 1/2 for integer codes, beyond qmax (1 + 2^-p8) for float8 codes
        sat_bound = rv((Fraction(qm) + Fraction(1, 2)) * (1 + 4 * u)) if not q_t.is_floating_point else rv(Fraction(qm) * (1 + Fraction(1, 2 ** tm.FMT[q_t.dtype]["p"])) * (1 + 4 * u))
        known_f8 = q_t.is_floating_point and case["source"] == "weight"
        for axis, shape in ((0, (2, 3)), (-1, (3, 2)), (None, (3,))):
            if axis is None and case["source"] == "weight":
                shape, axis_arg = (1, 3), 0  # axis of size 1 degrades to per-tensor
            else:
                axis_arg = axis
            w = (torch.randn(shape) * 2).to(dt)
            with Session(res) as m:
                W = m.symbolic(w, "w")
                if case["source"] == "weight":
                    q = quantize_weight(w, q_t, axis_arg)
                    sc = q._scale
                else:
                    sc = absmax_scale(w, q_t, axis_arg)
                SC = m.read(sc)
            ctx = m.ctx
            ok_meta = sc.dtype == dt and sc.numel() == (1 if axis is None else shape[axis])
            res.side_ok("scale-dtype-and-cardinality", ok_meta, f"{shape} axis={axis} {case['source']}: {sc.dtype} {tuple(sc.shape)}")
            if not ok_meta:
                res.side[-1]["replayed"] = True
                res.candidate("scale-meta", "side", dict(w=api.enc_tensor(w), qtype=case["qtype"], axis=axis_arg, source=case["source"]), exact=True)
                continue
            # the 3 elements sharing the first scale entry
            if axis == 0:
                row = [W[0, k] for k in range(3)]
            elif axis == -1:
                row = [W[k, 0] for k in range(3)]
            else:
                row = list(W.reshape(-1))
            s_term = SC.reshape(-1)[0]
            for imax in range(3):
                for sgn in (1, -1):
                    r = rerr.Rerr(ctx)
                    xs = [r.tr(t) for t in row]
                    sr = r.tr(s_term)
                    am = xs[imax] if sgn > 0 else -xs[imax]
                    reg = [am >= 0] + [z for k in range(3) if k != imax for z in (xs[k] <= am, -xs[k] <= am)]
                    # full range: s <= absmax/qmax (1+2u) + eta
                    exq = am / rv(qm)
                    v, secs, model = api.solve(r.cons + reg + [sr > exq * (1 + rv(3 * u)) + rv(2 * eta)], 60)
                    inside_known = known_f8
                    res.query("scale-not-larger-than-absmax/qmax", "RERR", v, secs, sub=f"axis={axis} max=elem{imax} sign{sgn}" + (" [known region: float8 weights]" if inside_known else ""))
                    if v == "sat":
                        wv = api.real_model_values(r, model, W, dt)
                        res.candidate(("region-witness:" if inside_known else "") + "scale-full-range", "RERR", dict(w=api.enc_tensor(api.tensor_from_values(wv, shape, dt)), qtype=case["qtype"], axis=axis_arg, source=case["source"]))
                    # non-saturation of every element the scale was computed from: |x_k / s| <= qmax + 1/2 (in RERR: the rounded quotient)
                    for k in range(3):
                        for side in (1, -1):
                            quo = r.rounded(xs[k] / sr, dt)
                            v, secs, model = api.solve(r.cons + reg + [am > rv(4 * f["fmin_norm"]) * rv(qm), sr > 0, side * quo > sat_bound], 60)
                            res.query("no-saturation-beyond-rounding", "RERR", v, secs, sub=f"axis={axis} max=elem{imax} sign{sgn} elem{k} side{side}")
                            if v == "sat":
                                wv = api.real_model_values(r, model, W, dt)
                                res.candidate("no-saturation", "RERR", dict(w=api.enc_tensor(api.tensor_from_values(wv, shape, dt)), qtype=case["qtype"], axis=axis_arg, source=case["source"]))
        return

    if case["kind"] == "affine":
        bits = q_t.bits
        n = 2**bits - 1
        w = torch.tensor([[0.3, -0.2, 0.7]], dtype=dt)
        with Session(res) as m:
            W = m.symbolic(w, "w")
            q = quantize_weight(w, q_t, 0)
            SC = m.read(q._scale).reshape(-1)[0]
            ZP = m.read(q._zeropoint).reshape(-1)[0]
        ctx = m.ctx
        res.side_ok("scale-dtype-and-cardinality", q._scale.dtype == dt and q._scale.numel() == 1 and q._zeropoint.numel() == 1 and q._zeropoint.dtype == torch.int8, "group of 3")
        for perm in itertools.permutations(range(3)):
            rank = {W[0, perm[k]].uid: k for k in range(3)}
            (SC3,) = specialise(ctx, [SC], rank)
            r = rerr.Rerr(ctx)
            wr = [r.tr(W[0, k]) for k in range(3)]
            lo_, hi_ = wr[perm[0]], wr[perm[2]]
            order = [wr[perm[0]] <= wr[perm[1]], wr[perm[1]] <= wr[perm[2]]]
            sr = r.tr(SC3)
            lo = z3.If(lo_ < 0, lo_, 0)
            hi = z3.If(hi_ > 0, hi_, 0)
            v, secs, model = api.solve(r.cons + order + [sr > (hi - lo) / n * (1 + rv(3 * u)) + rv(2 * eta)], 60)
            res.query("scale-not-larger-than-range/(2^bits-1)", "RERR", v, secs, sub=f"order{perm}")
            if v == "sat":
                wv = api.real_model_values(r, model, W, dt)
                res.candidate("affine-scale-full-range", "RERR", dict(w=api.enc_tensor(api.tensor_from_values(wv, (1, 3), dt)), qtype=case["qtype"], axis=0, source="affine"))
            # non-saturation: the shifted code before clamping lies in [-1, n+1] (outside the zero-point wrap regions of C02)
            for k in range(3):
                quo = r.rounded(wr[k] / sr, dt)
                zpf = r.rounded(-lo_ / sr, dt)
                slack = rv(1 + 300 * u)
                for side, goal in ((1, quo + zpf > n + slack), (-1, quo + zpf < -slack)):
                    # outside C02's zero-point wrap regions (|zero-point| <= 128), where the float error of the shift is bounded
                    v, secs, model = api.solve(r.cons + order + [hi_ - lo_ > rv(64 * f["fmin_norm"]), sr > 0, zabs(zpf) <= 128, goal], 60)
                    res.query("no-saturation-beyond-rounding", "RERR", v, secs, sub=f"order{perm} elem{k} side{side}")
                    if v == "sat":
                        wv = api.real_model_values(r, model, W, dt)
                        res.candidate("affine-no-saturation", "RERR", dict(w=api.enc_tensor(api.tensor_from_values(wv, (1, 3), dt)), qtype=case["qtype"], axis=0, source="affine"))
        return

    if case["kind"] == "local":
        lowbit = q_t.bits < 8
        for shape in case["shapes"]:
            shape = tuple(shape)
            if len(shape) == 1 and not lowbit:
                continue  # 1-D tensors cannot be quantized per-axis (ValueError, C14)
            for axis in (0, -1):
                if len(shape) == 1 and axis == -1:
                    continue
                per = int(np.prod(shape)) // shape[axis]
                gss = [None] + ([g for g in wq.divisors(per) if g < per] if lowbit else [])
                for gs in gss:
                    w = (torch.randn(shape) * 2).to(dt)
                    perm = torch.randperm(shape[axis]) if len(shape) > 1 else None
                    cfg = f"{shape} axis={axis} group={gs}"
                    with Session(res) as m:
                        W = m.symbolic(w, "w")
                        try:
                            q = quantize_weight(w, q_t, axis, gs)
                            d = q.dequantize()
                        except Exception as e:  # noqa
                            res.side_ok("accepts-valid-config", False, f"{cfg}: {type(e).__name__}: {e}")
                            res.side[-1]["replayed"] = True
                            res.candidate("local-raise", "side", dict(w=api.enc_tensor(w), qtype=case["qtype"], axis=axis, group_size=gs, source="local"), exact=True)
                            continue
                        D = m.read(d)
                        SC = m.read(q._scale)
                        if perm is not None:
                            wp = torch.index_select(w, axis % len(shape), perm)
                            qp = quantize_weight(wp, q_t, axis, gs)
                            Dp = m.read(qp.dequantize())
                    ctx = m.ctx
                    groups = wq.groups_oracle(shape, axis, gs) if lowbit else wq.groups_oracle(shape, axis, None)
                    if not lowbit and shape[axis] == 1:
                        groups = [[i for g in groups for i in g]]
                    card_ok = q._scale.dtype == dt and q._scale.numel() == len(groups) and tuple(d.shape) == shape
                    res.side_ok("scale-dtype-and-cardinality", card_ok, f"{cfg}: scale {tuple(q._scale.shape)} {q._scale.dtype}, expected {len(groups)} entries")
                    if not card_ok:
                        res.side[-1]["replayed"] = True
                        res.candidate("local-meta", "side", dict(w=api.enc_tensor(w), qtype=case["qtype"], axis=axis, group_size=gs, source="local"), exact=True)
                        continue
                    Dl = list(D.reshape(-1))
                    if lowbit:
                        mp = api.unpack_lemma(ctx, Dl + (list(Dp.reshape(-1)) if perm is not None else []), q_t.bits, None)
                        if mp is None:
                            res.query("locality-support", "ALG", "unknown", 0.0, sub=cfg, note="unpack lemma not proved")
                            continue
                        Dl = api.subst(ctx, Dl, mp)
                        if perm is not None:
                            Dpl = api.subst(ctx, list(Dp.reshape(-1)), mp)
                    elif perm is not None:
                        Dpl = list(Dp.reshape(-1))
                    pos = {idx: i for i, idx in enumerate(np.ndindex(shape))}
                    bad = None
                    for g in groups:
                        allowed = {W[i].args[0] for i in g}
                        for i in g:
                            sup = tm.support([Dl[pos[i]]])
                            if not sup <= allowed or W[i].args[0] not in sup and len(sup) > 0 and False:
                                bad = (i, sorted(sup - allowed)[:3])
                                break
                        if bad:
                            break
                    res.query("locality-support", "ALG", "unsat" if bad is None else "sat", 0.0, sub=cfg, nvars=w.numel())
                    # full range: any element of a group can be its extreme, so every result of the group depends (through the
                    # scale) on every element of the group; an element missing from the support can be made to saturate
                    miss = None
                    for g in groups:
                        allowed = {W[i].args[0] for i in g}
                        for i in g:
                            sup = tm.support([Dl[pos[i]]])
                            if sup and (allowed - sup):
                                miss = (i, next(j for j in g if W[j].args[0] not in sup))
                                break
                        if miss:
                            break
                    if miss is None and lowbit:
                        # affine range: every element must reach the result through a max node AND through a min node (it can be
                        # the upper or the lower extreme of its group); otherwise a value-directed witness makes it that extreme
                        name2idx = {W[i].args[0]: i for i in np.ndindex(shape)}
                        for st in SC.reshape(-1):
                            sup = tm.support([st])
                            cov = _extreme_cover(st)
                            for opn, sign in (("max", 1.0), ("min", -1.0)):
                                lack = sorted(sup - cov[opn])
                                if lack and cov[opn] and lack[0] in name2idx:
                                    miss = (name2idx[lack[0]], name2idx[lack[0]], sign)
                                    break
                            if miss:
                                break
                    res.query("scale-depends-on-every-group-element", "ALG", "unsat" if miss is None else "sat", 0.0, sub=cfg, nvars=w.numel())
                    if miss is not None:
                        w3 = w.clone()
                        w3[miss[1]] = ((w.float().abs().max() * 6 + 1) * (miss[2] if len(miss) > 2 else 1.0)).to(dt)  # value-directed witness: the ignored element becomes the extreme
                        res.candidate("full-range", "ALG", dict(w=api.enc_tensor(w3), qtype=case["qtype"], axis=axis, group_size=gs, source="weight" if not lowbit else "dep-affine"), note=f"result {miss[0]} does not depend on element {miss[1]} of its group")
                    if bad is not None:
                        # witness pair: same group, other groups rescaled
                        gidx = next(k for k, g in enumerate(groups) if bad[0] in g)
                        w2 = w.clone()
                        mask = torch.ones(shape, dtype=torch.bool)
                        for i in groups[gidx]:
                            mask[i] = False
                        w2[mask] = (w2[mask].float() * 7.5 + 3).to(dt)
                        res.candidate("locality", "ALG", dict(w=api.enc_tensor(w), w2=api.enc_tensor(w2), group=[list(i) for i in groups[gidx]], qtype=case["qtype"], axis=axis, group_size=gs, source="local-pair"), note=f"element {bad[0]} depends on foreign variables {bad[1]}")
                    if perm is not None:
                        # permuting the kept-axis indices permutes the results (term identity)
                        okp = True
                        ax = axis % len(shape)
                        for idx in np.ndindex(shape):
                            src = list(idx)
                            src[ax] = int(perm[idx[ax]])
                            if Dpl[pos[idx]] is not Dl[pos[tuple(src)]]:
                                okp = False
                                break
                        res.query("row-permutation-equivariance", "ALG", "unsat" if okp else "sat", 0.0, sub=cfg)
                        if not okp:
                            res.candidate("permutation", "ALG", dict(w=api.enc_tensor(w), perm=perm.tolist(), qtype=case["qtype"], axis=axis, group_size=gs, source="local-perm"))
        return
    raise KeyError(case["kind"])


def replay(rec):
    from symt import api

    from optimum.quanto import quantize_weight

    inp = rec["inputs"]
    w = api.dec_tensor(inp["w"])
    q_t = wq.qt(inp["qtype"])
    src = inp["source"]
    if src == "same-object":
        fresh = api.fresh_fork(lambda: _same_object_run(inp["qtype"], inp["dtype"], inp["how"], None, w, axes=(inp.get("axis", 0),), symbolic=False))
        after = api.fresh_fork(lambda: _same_object_run(inp["qtype"], inp["dtype"], inp["how"], inp["first"], w, axes=(inp.get("axis", 0),), symbolic=False))
        bad = repr(fresh) != repr(after)
        return bad, f"a tensor object quantized once, rewritten in place ({inp['how']}) with {w.tolist()} and quantized again ({inp['qtype']}) gives (scale, dequantized) {after}; a fresh tensor with the same content gives {fresh}", None
    if src == "history":
        # replays run in a fresh process: reproduce the history, then compare with what a process without history computes
        def run(first):
            if first is not None:
                for ax in (0, -1):
                    quantize_weight(torch.tensor([[0.7, -0.1], [0.2, 0.9]], dtype=api.DT[first]), q_t, ax).dequantize()
            out = []
            for ax in (0, -1):
                q = quantize_weight(w, q_t, ax)
                out.append((q._scale.double().reshape(-1).tolist(), q.dequantize().double().reshape(-1).tolist()))
            return out

        fresh = api.fresh_fork(lambda: run(None))
        after = api.fresh_fork(lambda: run(inp["first"]))
        bad = repr(fresh) != repr(after)
        return bad, f"quantize_weight({w.tolist()}, {inp['qtype']}) after a {inp['first']} weight was quantized in the same process gives (scale, dequantized) {after}, a process without that history gives {fresh}", None
    try:
        if src in ("weight", "activation"):
            probs, keys = sym_oracle(w, inp["qtype"], inp["axis"], src)
            key = None if (not keys or None in keys) else sorted(keys)
            return bool(probs), "\n".join(probs[:5]) or "C03 8-bit clauses hold", key
        if src == "affine":
            q = quantize_weight(w, q_t, inp["axis"])
            probs = []
            for g, s in zip(wq.groups_oracle(tuple(w.shape), inp["axis"], None), q._scale.reshape(-1).tolist()):
                vals = [float(w.double()[i]) for i in g]
                lo, hi = min(vals + [0.0]), max(vals + [0.0])
                f = wq.fmt(w.dtype)
                if Fraction(s) > (Fraction(hi) - Fraction(lo)) / (2**q_t.bits - 1) * (1 + Fraction(4, 2 ** f["p"])) + Fraction(2) ** (f["emin"] - f["p"] + 1):
                    probs.append(f"group {vals}: scale {s} > (hi-lo)/(2^bits-1) = {(hi-lo)/(2**q_t.bits-1)}")
            return bool(probs), "\n".join(probs) or "affine scale clauses hold", None
        if src == "dep-affine":
            pr = wq.affine_oracle(w, inp["qtype"], inp["axis"], inp.get("group_size"), tol_scale=4)
            return bool(pr), "\n".join(p[2] for p in pr[:4]) or "every element within half a step (+tolerance)", None
        if src == "local":
            q = quantize_weight(w, q_t, inp["axis"], inp.get("group_size"))
            d = q.dequantize()
            lowbit = q_t.bits < 8
            groups = wq.groups_oracle(tuple(w.shape), inp["axis"], inp.get("group_size") if lowbit else None)
            if not lowbit and w.shape[inp["axis"]] == 1:
                groups = [[i for g in groups for i in g]]
            ok = q._scale.dtype == w.dtype and q._scale.numel() == len(groups) and d.shape == w.shape
            return (not ok), f"scale {tuple(q._scale.shape)} {q._scale.dtype} for {len(groups)} groups of {tuple(w.shape)} {w.dtype}", None
        if src == "local-pair":
            w2 = api.dec_tensor(inp["w2"])
            a = quantize_weight(w, q_t, inp["axis"], inp.get("group_size")).dequantize()
            b = quantize_weight(w2, q_t, inp["axis"], inp.get("group_size")).dequantize()
            diff = [tuple(i) for i in inp["group"] if not torch.equal(a[tuple(i)], b[tuple(i)]) and not (a[tuple(i)] != a[tuple(i)] and b[tuple(i)] != b[tuple(i)])]
            return bool(diff), f"changing other groups changed the quantized values of group elements {diff[:4]}", None
        if src == "local-perm":
            perm = torch.tensor(inp["perm"])
            ax = inp["axis"] % w.ndim
            a = quantize_weight(w, q_t, inp["axis"], inp.get("group_size")).dequantize()
            b = quantize_weight(torch.index_select(w, ax, perm), q_t, inp["axis"], inp.get("group_size")).dequantize()
            ok = torch.equal(torch.index_select(a, ax, perm).nan_to_num(), b.nan_to_num())
            return (not ok), "permuting rows does not permute the quantized values", None
    except Exception as e:  # noqa
        import traceback

        return True, f"raised on a valid configuration: {type(e).__name__}: {e}\n{traceback.format_exc()[-600:]}", None
    raise KeyError(src)
