"""C13 - Calibration is scoped; inference and quantization are free of side effects (DESIGN.md section 6, C13)."""
import itertools

import torch

from . import models, wq

EVIDENCE = dict(
    bounds="no-write monitor (all values, all executed paths): every in-place ATen op is checked against the protected storages (parameters, buffers/scales, caller-owned inputs) during model(x) outside calibration (unfrozen, frozen, calibrated), quantize(), freeze(), state_dict(), quantize_weight() over 5 shapes x axis x every divisor group size x six qtypes, quantize_activation(); determinism by term identity of two successive evaluations with symbolic parameters and inputs; scoping under faults: exception raised in the forward of the k-th module for every k (solver-enumerated, models of <= 5 modules), exception kinds Exception and BaseException (KeyboardInterrupt), nesting depth <= 2 (distinct context objects and the same object re-entered), sequential contexts (distinct objects and one object reused), normal exit; after the block both a fresh model and the interrupted model itself are evaluated twice outside calibration (buffers unchanged, results identical); ownership: nine in-place operations applied by the caller to the tensors returned by model(x) and by quantize_activation must reach neither buffers, nor the caller's inputs, nor the next evaluation",
    outside="multi-threaded use; asynchronous exceptions; the fault clause's state is concrete (hook tables, mode stack): it is bounded enumeration steered by the solver, not a symbolic claim",
    assumptions=["a write that does not go through an ATen in-place/out op (e.g. raw data_ptr access in a compiled extension) is not observed", "Python-level state (qtypes, extension switch, registries) is snapshotted and compared concretely"],
)
CASE_DEADLINE = dict(quick=300.0, thorough=1200.0)
ALLQ = wq.QT8 + wq.QTB


class Boom(Exception):
    pass


def cases(tier, seed):
    out = []
    for q in ALLQ:
        for a in (None, "qint8"):
            out.append(dict(kind="nowrite-model", qtype=q, act=a, model="mlp"))
        out.append(dict(kind="nowrite-lib", qtype=q))
    for model in ("mlp", "nested", "lnorm"):
        for exc in ("Exception", "BaseException"):
            out.append(dict(kind="faults", model=model, exc=exc))
    out.append(dict(kind="ext-switch"))
    return out


MUTATIONS = {
    "mul_": lambda t: t.mul_(0.5), "div_": lambda t: t.div_(4.0), "imul": lambda t: t.__imul__(3.0), "neg_": lambda t: t.neg_(), "relu_": lambda t: t.relu_(),
    "add_": lambda t: t.add_(1.0), "clamp_": lambda t: t.clamp_(-0.25, 0.25), "copy_": lambda t: t.copy_(t * 2.0), "zero_": lambda t: t.zero_(),
}


def mutate_output(y, only=None):
    """what a caller may do with a tensor the library returned: in-place arithmetic, overwriting it.  None of it may reach
    the model or the tensors the caller passed in."""
    for name, f in MUTATIONS.items():
        if only is not None and name != only:
            continue
        try:
            f(y)
        except Exception:  # noqa  (a refusal is not a side effect)
            pass


RESULT_OPS = {
    "softmax": lambda q: torch.softmax(q, -1), "relu": lambda q: torch.relu(q), "mul-scalar": lambda q: q * 2.0, "neg": lambda q: -q,
    "transpose": lambda q: q.t(), "cat": lambda q: torch.cat([q, q]), "where": lambda q: torch.where(q.dequantize() > 0, q, q),
}


def py_state(model):
    from optimum.quanto.library import ops as libops
    from optimum.quanto.nn import QModuleMixin, qmodule
    from optimum.quanto.tensor import qbytes_ops, qtensor_func
    from optimum.quanto.tensor.qbits import qbits_ops

    st = dict(ext=libops._ext_enabled, ntab=(len(qbytes_ops._QBYTESTENSOR_OP_TABLE), len(qbits_ops._QBITSTENSOR_OP_TABLE), len(qtensor_func._QTENSOR_FUNC_TABLE), len(qmodule._QMODULE_TABLE)))
    if model is not None:
        st["mods"] = [(n, type(m).__name__, str(getattr(m, "weight_qtype", None)), str(getattr(m, "activation_qtype", None)), getattr(m, "weight_group_size", None), getattr(m, "frozen", None), m.training) for n, m in model.named_modules()]
    return st


def global_state():
    import torch.nn.modules.module as mm

    return dict(fwd=list(mm._global_forward_hooks.keys()), pre=list(mm._global_forward_pre_hooks.keys()), modes=len(torch.overrides._get_current_function_mode_stack()), always=dict(getattr(mm, "_global_forward_hooks_always_called", {})))


def fault_scenario(model_kind, k, exc_kind, nesting, act="qint8"):
    """enter calibration, make the k-th quantized-or-not leaf module raise in forward, leave; returns problems"""
    from optimum.quanto import Calibration, quantize
    from optimum.quanto.nn import QModuleMixin

    model, x = models.make(model_kind, torch.float32)
    quantize(model, weights=wq.qt("qint8"), activations=wq.qt(act))
    leaves = [m for m in model.modules() if not list(m.children())]
    exc = Boom if exc_kind == "Exception" else KeyboardInterrupt
    snap = global_state()
    handle = None
    if k is not None and k < len(leaves):
        def hook(mod, inp):
            raise exc("injected fault")

        handle = leaves[k].register_forward_pre_hook(hook)
    probs = []
    try:
        if nesting == 1:
            with Calibration():
                model(x)
        elif nesting == 2:
            with Calibration():
                with Calibration(momentum=0.5):
                    model(x)
        elif nesting == "reentrant":  # the same context object entered twice, nested
            cal = Calibration()
            with cal:
                with cal:
                    model(x)
        elif nesting == "reuse":  # the same context object used for two successive blocks
            cal = Calibration()
            with cal:
                pass
            with cal:
                model(x)
        else:  # sequential
            with Calibration():
                pass
            with Calibration():
                model(x)
    except (Boom, KeyboardInterrupt):
        pass
    finally:
        if handle is not None:
            handle.remove()
    after = global_state()
    if after != snap:
        probs.append(f"global state not restored after the calibration block: {snap} -> {after}")
    # the SAME model (the one whose forward was interrupted) evaluated afterwards, outside any calibration: its buffers stay as
    # the block left them and two evaluations agree bit for bit
    try:
        before_same = {n: b.clone() for n, b in model.named_buffers()}
        with torch.no_grad():
            y1 = model(x * 3)
            y2 = model(x * 3)
        y1, y2 = (y.dequantize() if hasattr(y, "dequantize") else y for y in (y1, y2))
        for n, b in model.named_buffers():
            if not torch.equal(b, before_same[n]):
                probs.append(f"the interrupted model run after the block had its buffer {n} changed: {before_same[n].tolist()} -> {b.tolist()}")
        if not torch.equal(torch.nan_to_num(y1), torch.nan_to_num(y2)):
            probs.append("the interrupted model gives two different results for the same input after the block")
    except Exception as e:  # noqa
        probs.append(f"the interrupted model cannot be evaluated after the block: {type(e).__name__}: {e}")
    # a fresh model run afterwards must leave its scales untouched
    fresh, x2 = models.make(model_kind, torch.float32, seed=8)
    quantize(fresh, weights=wq.qt("qint8"), activations=wq.qt(act))
    before = {n: b.clone() for n, b in fresh.named_buffers()}
    with torch.no_grad():
        fresh(x2 * 3)
    for n, b in fresh.named_buffers():
        if not torch.equal(b, before[n]):
            probs.append(f"a model run after the block had its buffer {n} changed: {before[n].tolist()} -> {b.tolist()}")
    # clean up leaked hooks so that later cases in this process are not polluted
    import torch.nn.modules.module as mm

    for d, keys in ((mm._global_forward_hooks, snap["fwd"]), (mm._global_forward_pre_hooks, snap["pre"])):
        for key in list(d.keys()):
            if key not in keys:
                del d[key]
    return probs, len(leaves)


def lib_configs():
    shapes = [(4,), (2, 4), (4, 2), (32, 16), (2, 3, 4)]
    for shape in shapes:
        for axis in (0, -1):
            if len(shape) == 1 and axis == -1:
                continue
            per = int(torch.tensor(shape).prod()) // shape[axis]
            gss = [None] + [g for g in wq.divisors(per)]
            if len(gss) > 5:
                gss = [None, gss[1], gss[len(gss) // 2], gss[-2], gss[-1]]
            for gs in gss:
                yield shape, axis, gs


def run_case(case, res):
    import z3

    from symt import api
    from symt.api import Session

    from optimum.quanto import Calibration, freeze, quantize, quantize_activation, quantize_weight
    from optimum.quanto.tensor import QTensor

    if case["kind"] == "nowrite-model":
        q_t = wq.qt(case["qtype"])
        a_t = wq.qt(case["act"]) if case["act"] else None
        model, x = models.make(case["model"], torch.float32)
        enc = dict(kind="nowrite-model", qtype=case["qtype"], act=case["act"], model=case["model"])
        with Session(res) as m:
            P0 = models.symbolic_params(m, model)
            X = m.symbolic(x, "x")
            stages = []

            def guarded(label, fn, protect_model=True):
                m.unprotect_all()
                m.writes_to_protected.clear()
                for n, p in model.named_parameters():
                    if type(p.data) is torch.Tensor:
                        m.protect(p.data, f"param {n}")
                    elif isinstance(p.data, QTensor):
                        for inner in ("_data", "_scale", "_zeropoint"):
                            t = getattr(p.data, inner, None)
                            if t is not None:
                                m.protect(t if type(t) is torch.Tensor else t._data, f"param {n}.{inner}")
                for n, b in model.named_buffers():
                    m.protect(b, f"buffer {n}")
                m.protect(x, "caller input")
                st0 = py_state(model)
                vals0 = {n: m.read(p.data if type(p.data) is torch.Tensor else p.data.dequantize()).copy() for n, p in model.named_parameters()}
                bufs0 = {n: m.read(b).copy() for n, b in model.named_buffers()}
                out = fn()
                st1 = py_state(model)
                w = list(m.writes_to_protected)
                changed = []
                if label not in ("quantize", "freeze"):
                    for n, p in model.named_parameters():
                        if n in vals0:
                            v1 = m.read(p.data if type(p.data) is torch.Tensor else p.data.dequantize())
                            if v1.shape != vals0[n].shape or not all(a is b for a, b in zip(v1.reshape(-1), vals0[n].reshape(-1))):
                                changed.append(f"param {n}")
                    if st0 != st1:
                        changed.append(f"python state {st0} -> {st1}")
                for n, b in model.named_buffers():
                    if n in bufs0 and not all(a is b_ for a, b_ in zip(m.read(b).reshape(-1), bufs0[n].reshape(-1))):
                        changed.append(f"buffer {n}")
                xin = m.read(x)
                if not all(a is b for a, b in zip(xin.reshape(-1), X.reshape(-1))):
                    changed.append("caller input")
                stages.append((label, w, changed))
                return out

            def fwd():
                with torch.no_grad():
                    y = model(x)
                return m.read(y.dequantize() if isinstance(y, QTensor) else y)

            guarded("quantize", lambda: quantize(model, weights=q_t, activations=a_t))
            SCL = {}
            if a_t is not None:
                models.set_scales(model, 0.05, 0.09)
                for n_, b_ in model.named_buffers():
                    SCL[n_] = m.symbolic(b_, f"s.{n_}")
            # quantize() must not modify the float tensors it read: the new modules' parameters are the old variables
            same = all(all(a is b for a, b in zip(m.read(p.data).reshape(-1), P0[n].reshape(-1))) for n, p in model.named_parameters() if n in P0)
            if not same:
                stages.append(("quantize", [], ["parameters altered by quantize()"]))
            y1 = guarded("forward-unfrozen", fwd)
            y2 = guarded("forward-unfrozen-again", fwd)
            det1 = all(a is b for a, b in zip(y1.reshape(-1), y2.reshape(-1)))

            def fwd_other_dtype():
                # an inference with inputs of another float dtype must not leave anything behind either
                for odt in (torch.bfloat16, torch.float16):
                    try:
                        with torch.no_grad():
                            model(x.to(odt))
                    except Exception:
                        pass  # a dtype mismatch error is not a side effect

            guarded("forward-other-dtype", fwd_other_dtype)
            y2b = guarded("forward-unfrozen-after-other-dtype", fwd)
            det1 = det1 and all(a is b for a, b in zip(y1.reshape(-1), y2b.reshape(-1)))
            guarded("state_dict", lambda: model.state_dict())

            def use_output():
                with torch.no_grad():
                    mutate_output(model(x))

            guarded("caller-mutates-returned-output", use_output)
            y2c = guarded("forward-after-output-mutation", fwd)
            det1 = det1 and all(a is b for a, b in zip(y1.reshape(-1), y2c.reshape(-1)))
            if a_t is not None:
                m.unprotect_all()
                with torch.no_grad(), Calibration(streamline=False):
                    model(x)
                y1 = guarded("forward-calibrated", fwd)
                y2 = guarded("forward-calibrated-again", fwd)
                det1 = det1 and all(a is b for a, b in zip(y1.reshape(-1), y2.reshape(-1)))
            guarded("freeze", lambda: freeze(model))
            y3 = guarded("forward-frozen", fwd)
            y4 = guarded("forward-frozen-again", fwd)
            det2 = all(a is b for a, b in zip(y3.reshape(-1), y4.reshape(-1)))
            guarded("state_dict-frozen", lambda: model.state_dict())
        bad = [(l, w, c) for l, w, c in stages if w or c]
        res.query("no-writes-to-parameters-buffers-inputs", "ALG", "unsat" if not bad else "sat", 0.0, sub=f"{len(stages)} stages", nvars=len(m.ctx.vars))
        res.query("repeated-evaluation-bit-identical", "ALG", "unsat" if det1 and det2 else "sat", 0.0, nvars=len(m.ctx.vars))
        if bad or not (det1 and det2):
            res.candidate("nowrite-model", "ALG", enc, note=str(bad[:2]), exact=False)
            # value-specific writes (e.g. only when a scale is zero): take the other side of every data-dependent branch of the run
            if SCL and m.path:
                from symt import rerr

                for i_, (cond_, out_, kind_) in enumerate(m.path[:6]):
                    try:
                        r = rerr.Rerr(m.ctx, ideal=True)
                        pc = r.tr(cond_)
                        v, secs, mdl = api.solve(r.cons + [z3.Not(pc) if out_ else pc], 20)
                        res.query("branch-flip", "RERR", "unsat" if v in ("sat", "unsat") else v, secs, sub=f"branch {i_}: other side {'feasible' if v == 'sat' else 'infeasible'}")
                        if v == "sat":
                            sc = {n_: api.real_model_values(r, mdl, SCL[n_], torch.float32)[0] for n_ in SCL}
                            res.candidate("nowrite-model", "RERR-ideal", dict(enc, scales=sc), note="scale values taking the other side of a data-dependent branch", exact=False, cap=6)
                    except NotImplementedError:
                        pass
            # ... and solve for buffer values under which a buffer really changes
            if SCL:
                try:
                    from symt import rerr

                    r = rerr.Rerr(m.ctx, ideal=True)
                    diffs = []
                    for n_, b_ in model.named_buffers():
                        if n_ in SCL:
                            now = m.read(b_).reshape(-1)
                            diffs += [r.tr(a_) != r.tr(o_) for a_, o_ in zip(now, SCL[n_].reshape(-1)) if a_ is not o_]
                    if diffs:
                        v, secs, mdl = api.solve(r.cons + [z3.Or(*diffs)], 30)
                        if v == "sat":
                            sc = {n_: api.real_model_values(r, mdl, SCL[n_], torch.float32)[0] for n_ in SCL}
                            res.candidate("nowrite-model", "RERR-ideal", dict(enc, scales=sc), note="buffer values under which inference rewrites a buffer", exact=False)
                except NotImplementedError:
                    pass
        return

    if case["kind"] == "nowrite-lib":
        q_t = wq.qt(case["qtype"])
        for shape, axis, gs in lib_configs():
            if q_t.bits == 8 and (gs is not None or len(shape) == 1):
                continue
            w = torch.randn(shape)
            w_enc = api.enc_tensor(w)  # encoded BEFORE the call: a defect may overwrite it
            with Session(res) as m:
                W = m.symbolic(w, "w")
                m.protect(w, "caller tensor")
                try:
                    q1 = quantize_weight(w, q_t, axis, gs)
                    d1 = m.read(q1.dequantize()).copy()
                    q2 = quantize_weight(w, q_t, axis, gs)
                    d2 = m.read(q2.dequantize())
                except ValueError:
                    continue
                wr = list(m.writes_to_protected)
                unchanged = all(a is b for a, b in zip(m.read(w).reshape(-1), W.reshape(-1)))
                det = api.equal_modulo_bits(m.ctx, d1, d2, q_t.bits if q_t.bits < 8 else None, None) if (not wr and unchanged) else False
            ok = not wr and unchanged and bool(det)
            res.query("quantize_weight-does-not-modify-its-input", "ALG", "unsat" if ok else "sat", 0.0, sub=f"{shape} axis={axis} group={gs}", nvars=w.numel())
            if not ok:
                res.candidate("nowrite-lib", "ALG", dict(kind="nowrite-lib", qtype=case["qtype"], w=w_enc, axis=axis, group_size=gs), note=f"writes={wr[:2]} unchanged={unchanged} deterministic={det}")
        if q_t.bits == 8:
            x = torch.randn(2, 3)
            x_enc = api.enc_tensor(x)
            s = torch.tensor(0.05)
            with Session(res) as m:
                X, S = m.symbolic(x, "x"), m.symbolic(s, "s")
                m.protect(x, "caller tensor")
                m.protect(s, "caller scale")
                qa = quantize_activation(x, q_t, s)
                qa.dequantize()
                ok = not m.writes_to_protected and all(a is b for a, b in zip(m.read(x).reshape(-1), X.reshape(-1)))
                # ... nor may what the caller later does to the returned tensor reach the tensors that were passed in
                mutate_output(qa)
                later = list(m.writes_to_protected)
                ok2 = not later and all(a is b for a, b in zip(m.read(x).reshape(-1), X.reshape(-1))) and m.read(s).reshape(-1)[0] is S.reshape(-1)[0]
            res.query("quantize_activation-does-not-modify-its-input", "ALG", "unsat" if ok else "sat", 0.0)
            if not ok:
                res.candidate("nowrite-lib", "ALG", dict(kind="nowrite-act", qtype=case["qtype"], x=x_enc))
            # results of operations on quantized tensors belong to the caller too: overwrite one, run the operation again on
            # fresh operands - the second result must be the term the first one was (no process-wide state behind the results)
            for opname, fn in RESULT_OPS.items():
                with Session(res) as m3:
                    m3.symbolic(x, "x")
                    # one scale tensor per call (the same variable): a result keeps the scale it was given by reference
                    # (recorded finding C13/quantized-tensor-aliases-caller-scale), which is not what this clause is about
                    s3 = torch.tensor(0.05)
                    m3.symbolic(s3, "s")
                    s4 = s3.clone()
                    try:
                        r1 = fn(quantize_activation(x, q_t, s3))
                        R1 = m3.read(r1.dequantize() if isinstance(r1, QTensor) else r1).copy()
                        mutate_output(r1)
                        r2 = fn(quantize_activation(x, q_t, s4))
                        R2 = m3.read(r2.dequantize() if isinstance(r2, QTensor) else r2)
                        same_r = R1.shape == R2.shape and all(a_ is b_ for a_, b_ in zip(R1.reshape(-1), R2.reshape(-1)))
                    except NotImplementedError:
                        continue
                res.query("operation-results-do-not-share-state", "ALG", "unsat" if same_r else "sat", 0.0, sub=opname)
                if not same_r:
                    res.candidate("op-result-state", "ALG", dict(kind="op-result-state", qtype=case["qtype"], op=opname, x=x_enc), exact=False)
            res.query("returned-tensor-does-not-alias-caller-tensors", "ALG", "unsat" if ok2 else "sat", 0.0, sub="in-place operations on the result of quantize_activation")
            if ok and not ok2:
                res.candidate("region-witness:result-aliases-caller-scale", "ALG", dict(kind="alias-act", qtype=case["qtype"], x=x_enc), note=str(later[:2]), exact=False)
        return

    if case["kind"] == "faults":
        # the fault position k is a solver variable: every feasible value is enumerated by blocking clauses
        _, nleaves = fault_scenario(case["model"], None, case["exc"], 1)
        k = z3.Int("k")
        s = z3.Solver()
        s.add(k >= 0, k < nleaves)
        ks = []
        while s.check() == z3.sat:
            v = s.model()[k].as_long()
            ks.append(v)
            s.add(k != v)
        res.query("fault-positions-enumerated", "LIA", "unsat", 0.0, sub=f"{len(ks)} positions, domain closed", symbolic=False)
        for kk in [None] + sorted(ks):
            for nesting in (1, 2, "seq", "reentrant", "reuse"):
                probs, _ = fault_scenario(case["model"], kk, case["exc"], nesting)
                res.side_ok("calibration-scope-restored", not probs, f"{case['model']} fault at module {kk} ({case['exc']}) nesting={nesting}: {probs[:1]}")
                if probs:
                    res.side[-1]["replayed"] = True
                    res.candidate("faults", "side", dict(kind="faults", model=case["model"], k=kk, exc=case["exc"], nesting=nesting), exact=True)
        return

    if case["kind"] == "ext-switch":
        from optimum.quanto.library import disable_extensions
        from optimum.quanto.library import ops as libops

        probs = []
        for raise_inside in (False, True):
            before = libops._ext_enabled
            try:
                with disable_extensions():
                    if libops._ext_enabled:
                        probs.append("extensions not disabled inside the block")
                    if raise_inside:
                        raise Boom()
            except Boom:
                pass
            if libops._ext_enabled != before:
                probs.append(f"extension switch not restored (raise_inside={raise_inside})")
        res.side_ok("disable_extensions-restores-the-switch", not probs, "; ".join(probs))
        if probs:
            res.side[-1]["replayed"] = True
            res.candidate("ext-switch", "side", dict(kind="ext-switch"), exact=True)
        return
    raise KeyError(case["kind"])


def replay(rec):
    from symt import api

    from optimum.quanto import Calibration, freeze, quantize, quantize_activation, quantize_weight
    from optimum.quanto.tensor import QTensor

    inp = rec["inputs"]
    if inp["kind"] == "faults":
        probs, _ = fault_scenario(inp["model"], inp["k"], inp["exc"], inp["nesting"])
        return bool(probs), "; ".join(probs[:3]) or "scope restored", None
    if inp["kind"] == "ext-switch":
        from optimum.quanto.library import disable_extensions
        from optimum.quanto.library import ops as libops

        try:
            with disable_extensions():
                raise Boom()
        except Boom:
            pass
        return (not libops._ext_enabled), f"_ext_enabled={libops._ext_enabled} after an exception inside disable_extensions()", None
    if inp["kind"] == "nowrite-lib":
        w = api.dec_tensor(inp["w"])
        w0 = w.clone()
        q1 = quantize_weight(w, wq.qt(inp["qtype"]), inp["axis"], inp["group_size"]).dequantize()
        changed = not torch.equal(w, w0)
        q2 = quantize_weight(w, wq.qt(inp["qtype"]), inp["axis"], inp["group_size"]).dequantize()
        nondet = not torch.equal(torch.nan_to_num(q1), torch.nan_to_num(q2))
        return changed or nondet, f"quantize_weight modified its input: {changed}; second call differs: {nondet}", None
    if inp["kind"] == "nowrite-act":
        x = api.dec_tensor(inp["x"])
        x0 = x.clone()
        quantize_activation(x, wq.qt(inp["qtype"]), torch.tensor(0.05)).dequantize()
        return (not torch.equal(x, x0)), "quantize_activation modified its input", None
    if inp["kind"] == "op-result-state":
        fn = RESULT_OPS[inp["op"]]
        x = api.dec_tensor(inp["x"])
        q_t = wq.qt(inp["qtype"])
        d = lambda t: (t.dequantize() if isinstance(t, QTensor) else t).clone()  # noqa
        r1 = fn(quantize_activation(x, q_t, torch.tensor(0.05)))
        v1 = d(r1)
        mutate_output(r1)
        v2 = d(fn(quantize_activation(x, q_t, torch.tensor(0.05))))
        bad = not torch.equal(torch.nan_to_num(v1), torch.nan_to_num(v2))
        return bad, f"{inp['op']} of the same quantized input gives {v2.tolist()} after an earlier result of the same operation was overwritten in place (before: {v1.tolist()})", None
    if inp["kind"] == "alias-act":
        culprits = []
        for name in MUTATIONS:
            x = api.dec_tensor(inp["x"])
            s = torch.tensor(0.05)
            x0, s0 = x.clone(), s.clone()
            qa = quantize_activation(x, wq.qt(inp["qtype"]), s)
            mutate_output(qa, only=name)
            if not torch.equal(x, x0) or not torch.equal(s, s0):
                culprits.append(name)
        # recorded finding: only copy_ from another quantized tensor writes through to the caller's scale
        key = ["C13/quantized-tensor-aliases-caller-scale"] if culprits == ["copy_"] else None
        return bool(culprits), f"in-place {culprits} on the tensor returned by quantize_activation(x, qtype, scale) modified the caller's x or scale", key
    if inp["kind"] == "nowrite-model":
        model, x = models.make(inp["model"], torch.float32)
        a_t = wq.qt(inp["act"]) if inp["act"] else None
        p0 = {n: p.detach().clone() for n, p in model.named_parameters()}
        x0 = x.clone()
        probs = []
        quantize(model, weights=wq.qt(inp["qtype"]), activations=a_t)
        for n, p in model.named_parameters():
            if n in p0 and not torch.equal(p.detach(), p0[n]):
                probs.append(f"quantize() altered {n}")

        def snap():
            return {**{n: (p.data.dequantize() if isinstance(p.data, QTensor) else p.data).clone() for n, p in model.named_parameters()}, **{"buf:" + n: b.clone() for n, b in model.named_buffers()}}

        def fwd():
            with torch.no_grad():
                y = model(x)
            return (y.dequantize() if isinstance(y, QTensor) else y).clone()

        if inp.get("scales"):
            for n, b in model.named_buffers():
                if n in inp["scales"]:
                    b.fill_(inp["scales"][n])
        for label in ("unfrozen", "calibrated", "frozen"):
            if label == "calibrated":
                if a_t is None or inp.get("scales"):
                    continue
                with torch.no_grad(), Calibration(streamline=False):
                    model(x)
            if label == "frozen":
                freeze(model)
            s0 = snap()
            y1 = fwd()
            for odt in (torch.bfloat16, torch.float16):
                try:
                    with torch.no_grad():
                        model(x.to(odt))
                except Exception:
                    pass
            with torch.no_grad():
                mutate_output(model(x))
            y2 = fwd()
            model.state_dict()
            s1 = snap()
            for n in s0:
                if not torch.equal(torch.nan_to_num(s0[n]), torch.nan_to_num(s1[n])):
                    probs.append(f"{label}: {n} changed by inference")
            if not torch.equal(torch.nan_to_num(y1), torch.nan_to_num(y2)):
                probs.append(f"{label}: repeated evaluation differs")
            if not torch.equal(x, x0):
                probs.append(f"{label}: caller input modified")
        return bool(probs), "; ".join(probs[:4]) or "no side effects", None
    raise KeyError(inp["kind"])
