"""C16 - Finite tensors never quantize to NaN/Inf, whatever their range (DESIGN.md section 6, C16)."""
from fractions import Fraction

import os

import torch

from . import wq

EVIDENCE = dict(
    bounds="BIT (exact): rows/groups of 2 symbolic finite elements x 2 rows/groups, all six qtypes, axis 0 and -1, float16 and bfloat16 in full, float32 under a 120 s cap per query (inconclusive queries are reported); zero-weight layers: QLinear 2x2 and QConv2d 1x1 with symbolic finite input and bias; calibration followed by inference: one symbolic batch of 2 elements then a second symbolic batch",
    outside="rows/groups of more than 2 elements in BIT (the degenerate classes of the property - zero, constant, one-sided, offset, subnormal, near-max, single non-zero - are regions of the 2-element symbolic space and are each asked for a witness); float32 where the cap is hit; error bounds for general rows are C01-C03's clauses, whose no-overflow obligations are what this check discharges",
    assumptions=["z3 FloatingPoint theory; ATen transfer functions validated bit-for-bit on every op under the seed; float sums of <= 2 products are order-independent"],
)
CASE_DEADLINE = dict(quick=420.0, thorough=1800.0)
ALLQ = wq.QT8 + wq.QTB


def cases(tier, seed):
    out = []
    for dt in ("float16", "bfloat16") + (("float32",) if tier == "thorough" else ()):
        for q in ALLQ:
            for axis in (0, -1):
                out.append(dict(kind="finite", dtype=dt, qtype=q, axis=axis))
    for dt in ("float16", "bfloat16", "float32"):
        for q in ALLQ:
            out.append(dict(kind="zero-layer", dtype=dt, qtype=q, module="linear"))
            if tier == "thorough":
                out.append(dict(kind="zero-layer", dtype=dt, qtype=q, module="conv"))
    for dt in ("float16", "bfloat16"):
        for a in wq.QT8:
            out.append(dict(kind="calib", dtype=dt, act=a))
    # one process, several dtypes one after the other (the default optimizers are process-wide singletons)
    for q in wq.QT8 + wq.QTB:
        out.append(dict(kind="dtype-sequence", qtype=q))
    # calibrated scales keep the C01/C03 bounds for every magnitude of the calibration batch (RERR)
    for dt in ("float16", "bfloat16", "float32"):
        for a in wq.QT8:
            out.append(dict(kind="calib-scale-range", dtype=dt, act=a))
    return out


def classify8(vals, q_t, dtype):
    """known-finding regions for 8-bit symmetric weight rows"""
    f = wq.fmt(dtype)
    am = max(abs(v) for v in vals)
    t = torch.tensor(am, dtype=torch.float64).to(dtype)
    s = float(t / 127)
    qmax = float(torch.finfo(q_t.dtype).max) if q_t.is_floating_point else 128.0
    if am == 0.0 or s == 0.0:
        return "zero-scale-float8" if q_t.is_floating_point else "zero-scale-int8"
    if s * (127.0 if not q_t.is_floating_point else 127.0) > f["fmax"] or s * 128 > f["fmax"]:
        return "grid-endpoint-overflow"
    return None


def finite_oracle(w, qtype_name, axis):
    from optimum.quanto import quantize_weight

    q_t = wq.qt(qtype_name)
    q = quantize_weight(w, q_t, axis)
    d = q.dequantize()
    probs = []
    groups = wq.groups_oracle(tuple(w.shape), axis, None)
    wl = w.double()
    for g in groups:
        vals = [float(wl[i]) for i in g]
        if any(v != v or abs(v) == float("inf") for v in vals):
            continue
        bad = [i for i in g if not torch.isfinite(d[i])]
        if bad:
            region = wq.classify_group(vals, q_t.bits, w.dtype) if q_t.bits < 8 else classify8(vals, q_t, w.dtype)
            probs.append((f"row/group {vals} dequantizes to {[float(d[i]) for i in g]}", region))
    return probs


def run_case(case, res):
    import z3

    from symt import api, bit
    from symt import terms as tm
    from symt.api import Session

    from optimum.quanto import Calibration, freeze, quantize, quantize_weight

    dt = api.DT[case["dtype"]] if "dtype" in case else None
    fin = lambda e: z3.Not(z3.Or(z3.fpIsNaN(e), z3.fpIsInf(e)))  # noqa
    cap = 120

    if case["kind"] == "finite":
        q_t = wq.qt(case["qtype"])
        axis = case["axis"]
        w = torch.tensor([[0.3, -0.2], [0.11, 0.4]], dtype=dt)
        with Session(res) as m:
            W = m.symbolic(w, "w")
            q = quantize_weight(w, q_t, axis)
            D = m.read(q.dequantize())
            SC = m.read(q._scale).reshape(-1)
            ZP = m.read(q._zeropoint).reshape(-1) if q_t.bits < 8 else []
        ctx = m.ctx
        b = bit.Bit(ctx)
        pre = [fin(b.tr(x)) for x in W.reshape(-1)]
        n = 2**q_t.bits - 1
        regs = {}
        if q_t.bits == 8:
            qm = 127.0 if not q_t.is_floating_point else tm.FMT[q_t.dtype]["fmax"]
            ends = [z3.fpMul(z3.RNE(), b.tr(s), z3.FPVal(v, b.tr(s).sort())) for s in SC for v in ((127.0, -128.0) if not q_t.is_floating_point else (127.0,))]
            R_end = z3.Or(*[z3.Not(fin(e)) for e in ends])
            R_zero = z3.Or(*[z3.fpIsZero(b.tr(s)) for s in SC])
            regs["grid-endpoint-overflow"] = z3.And(R_end, z3.Not(R_zero))
            regs["zero-scale-float8" if q_t.is_floating_point else "zero-scale-int8"] = R_zero
        else:
            zp_args = list({a.uid: a for a, cdt in ctx.cast_obligations if cdt == torch.int8 and tm.is_float(a.dt)}.values())
            R_zp = z3.Or(*[z3.Or(z3.fpIsNaN(b.tr(a)), z3.fpLT(b.tr(a), z3.FPVal(-128, b.tr(a).sort())), z3.fpGT(b.tr(a), z3.FPVal(127, b.tr(a).sort()))) for a in zp_args])
            R_const = z3.Or(*[z3.fpIsZero(b.tr(s)) for s in SC])
            R_czp = z3.Or(*[b.tr(z) < -(127 - n) for z in ZP])
            rng = [t for t in tm.topo(list(SC)) if t.op == "sub" and tm.is_float(t.dt)]
            R_range = z3.Or(*[z3.Not(fin(b.tr(t))) for t in rng])
            ends = []
            for s_, z_ in zip(SC, ZP):
                sz_, zz_ = b.tr(s_), b.tr(z_)
                for code in (0, n):
                    ends.append(z3.fpMul(z3.RNE(), sz_, z3.fpSignedToFP(z3.RNE(), z3.BitVecVal(code, 8) - zz_, sz_.sort())))
            R_end = z3.And(z3.Not(R_zp), z3.Not(R_czp), z3.Not(R_range), z3.Not(R_const), z3.Or(*[z3.Not(fin(e)) for e in ends]))
            regs = {"zeropoint-overflow": R_zp, "zero-scale-underflow": R_const, "code-minus-zeropoint-overflow": z3.And(z3.Not(R_zp), R_czp), "range-overflow": R_range, "grid-endpoint-overflow": R_end}
        bad_out = z3.Or(*[z3.Not(fin(b.tr(d))) for d in D.reshape(-1)])
        # int8 zero rows are harmless (0/0 -> NaN -> code 0 -> 0*0): only float8 zero rows are a finding region
        excl = [z3.Not(R) for k, R in regs.items() if k != "zero-scale-int8"]
        v, secs, model = api.solve(pre + excl + [bad_out], cap)
        res.query("dequantized-finite-outside-known-regions", "BIT", v, secs)
        if v == "sat":
            res.candidate("finite", "BIT", dict(kind="finite", w=api.enc_tensor(api.tensor_from_values(api.model_values(b, model, W), (2, 2), dt)), qtype=case["qtype"], axis=axis), exact=True)
        for key, R in regs.items():
            v, secs, model = api.solve(pre + [R, bad_out], cap)
            res.query("known-region-witness", "BIT", v if v == "unknown" else "unsat", secs, sub=f"{key}: {'violating witness found' if v == 'sat' else 'no violation inside' if v == 'unsat' else 'unknown'}")
            if v == "sat":
                res.candidate("region-witness:" + key, "BIT", dict(kind="finite", w=api.enc_tensor(api.tensor_from_values(api.model_values(b, model, W), (2, 2), dt)), qtype=case["qtype"], axis=axis), exact=False)
        # degenerate classes are inhabited regions of the symbolic space (vacuity of the quantifier)
        Wz = [b.tr(x) for x in W.reshape(-1)]
        srt = Wz[0].sort()
        fmax = tm.FMT[dt]["fmax"]
        classes = {
            "zeros": z3.And(*[z3.fpIsZero(x) for x in Wz[:2]]),
            "constant": z3.And(z3.fpEQ(Wz[0], Wz[1]), z3.Not(z3.fpIsZero(Wz[0]))),
            "one-sided": z3.And(z3.fpGT(Wz[0], z3.FPVal(1.0, srt)), z3.fpGT(Wz[1], z3.FPVal(1.0, srt))),
            "subnormal": z3.And(z3.fpIsSubnormal(Wz[0]), z3.fpIsSubnormal(Wz[1])),
            "near-max": z3.fpGT(z3.fpAbs(Wz[0]), z3.FPVal(fmax / 2, srt)),
            "single-non-zero": z3.And(z3.fpIsZero(Wz[0]), z3.Not(z3.fpIsZero(Wz[1]))),
        }
        for cname, cl in classes.items():
            v, secs, _ = api.solve(pre + [cl], 20)
            res.query("degenerate-class-inhabited", "BIT", "unsat" if v == "sat" else "unknown", secs, sub=cname, symbolic=False)
        return

    if case["kind"] == "zero-layer":
        q_t = wq.qt(case["qtype"])
        if case["module"] == "linear":
            mod = torch.nn.Linear(2, 2, dtype=dt)
            x = (torch.randn(1, 2) * 2).to(dt)
        else:
            mod = torch.nn.Conv2d(1, 2, 1, dtype=dt)
            x = (torch.randn(1, 1, 1, 2) * 2).to(dt)
        with torch.no_grad():
            mod.weight.zero_()
        model = torch.nn.Sequential(mod)
        quantize(model, weights=q_t)
        for frozen in (False, True):
            if frozen:
                freeze(model)
            with Session(res) as m:
                X = m.symbolic(x, "x")
                B = m.symbolic(model[0].bias.data, "b")
                with torch.no_grad():
                    y = model(x)
                Y = m.read(y)
            b = bit.Bit(m.ctx)
            pre = [fin(b.tr(t)) for t in list(X.reshape(-1)) + list(B.reshape(-1))]
            Yf = Y.reshape(-1, 2) if case["module"] == "linear" else Y.reshape(2, -1).T
            neq = []
            for row in Yf:
                for j in range(2):
                    neq.append(z3.Not(z3.fpEQ(b.tr(row[j]), b.tr(B[j]))))
            known = q_t.is_floating_point
            v, secs, mdl = api.solve(pre + [z3.Or(*neq)], cap)
            res.query("zero-weights-give-bias", "BIT", v, secs, sub=f"frozen={frozen}" + (" [known region: float8 zero rows]" if known else ""))
            if v == "sat":
                xv, bv = api.model_values(b, mdl, X), api.model_values(b, mdl, B)
                res.candidate(("region-witness:zero-scale-float8" if known else "zero-layer"), "BIT", dict(kind="zero-layer", module=case["module"], x=api.enc_tensor(api.tensor_from_values(xv, tuple(x.shape), dt)), bias=api.enc_tensor(api.tensor_from_values(bv, (2,), dt)), qtype=case["qtype"], frozen=frozen), exact=(not known and not m.opaque_ops))
        return

    if case["kind"] == "dtype-sequence":
        q_t = wq.qt(case["qtype"])
        orders = [("float32", "float16"), ("float16", "float32"), ("float32", "bfloat16"), ("bfloat16", "float16")]
        for first, second in orders:
            d1, d2 = api.DT[first], api.DT[second]
            w1 = torch.tensor([[0.3, -0.2], [0.11, 0.4]], dtype=d1)
            w2 = torch.tensor([[0.3, -0.2], [0.11, 0.4]], dtype=d2)
            with Session(res) as m:
                quantize_weight(w1, q_t, 0).dequantize()  # warm-up in another dtype, concrete
                W = m.symbolic(w2, "w")
                q = quantize_weight(w2, q_t, 0)
                D = m.read(q.dequantize())
                SC = m.read(q._scale).reshape(-1)
            b = bit.Bit(m.ctx)
            pre = [fin(b.tr(x)) for x in W.reshape(-1)]
            # an all-zero row must dequantize to zeros, whatever was quantized before in this process
            zero_row = [z3.fpIsZero(b.tr(W[0, 0])), z3.fpIsZero(b.tr(W[0, 1]))]
            bad = z3.Or(*[z3.Not(z3.fpIsZero(b.tr(D[0, k]))) for k in range(2)])
            v, secs, mdl = api.solve(pre + zero_row + [bad], cap)
            res.query("zero-row-stays-zero-after-other-dtypes", "BIT", v, secs, sub=f"{first} then {second}")
            if v == "sat":
                res.candidate("dtype-sequence", "BIT", dict(kind="dtype-sequence", qtype=case["qtype"], first=first, second=second, w=api.enc_tensor(api.tensor_from_values(api.model_values(b, mdl, W), (2, 2), d2))), exact=True)
            # and the scale of a non-zero row is the one a fresh process computes (term identity with a second, direct run)
            with Session(res) as m2:
                W2 = m2.symbolic(w2, "w")
                q2 = quantize_weight(w2, q_t, 0)
                SC2 = m2.read(q2._scale).reshape(-1)
            same = all(a_.pretty(12) == b_.pretty(12) for a_, b_ in zip(SC, SC2))
            res.query("scale-independent-of-earlier-calls", "ALG", "unsat" if same else "sat", 0.0, sub=f"{first} then {second}")
            if not same:
                res.candidate("dtype-sequence", "ALG", dict(kind="dtype-sequence", qtype=case["qtype"], first=first, second=second, w=api.enc_tensor(torch.tensor([[0.0, 0.0], [1e-6, 2e-6]], dtype=d2))), exact=False)
                res.candidate("dtype-sequence", "ALG", dict(kind="dtype-sequence", qtype=case["qtype"], first=first, second=second, w=api.enc_tensor(w2)), exact=False)
        return

    if case["kind"] == "calib-scale-range":
        from fractions import Fraction

        from symt import rerr
        from optimum.quanto import absmax_scale

        a_t = wq.qt(case["act"])
        qm = float(torch.finfo(a_t.dtype).max) if a_t.is_floating_point else 127.0
        f = tm.FMT[dt]
        u, eta = Fraction(1, 2 ** f["p"]), Fraction(2) ** (f["emin"] - f["p"])
        x = torch.tensor([0.3, -0.7, 0.2], dtype=dt)
        with Session(res) as m:
            X = m.symbolic(x, "x")
            S = m.read(absmax_scale(x, a_t)).reshape(-1)[0]
        for imax in range(3):
            for sgn in (1, -1):
                r = rerr.Rerr(m.ctx)
                xs = [r.tr(t) for t in X]
                sr = r.tr(S)
                am = xs[imax] if sgn > 0 else -xs[imax]
                reg = [am >= 0] + [z for k in range(3) if k != imax for z in (xs[k] <= am, -xs[k] <= am)]
                v, secs, mdl = api.solve(r.cons + reg + [sr > am / rerr.rv(qm) * (1 + rerr.rv(3 * u)) + rerr.rv(2 * eta)], 60)
                res.query("calibration-scale-not-larger-than-absmax/qmax", "RERR", v, secs, sub=f"max=elem{imax} sign{sgn}")
                if v == "sat":
                    xv = api.tensor_from_values(api.real_model_values(r, mdl, X, dt), (3,), dt)
                    res.candidate("calib-scale-range", "RERR", dict(kind="calib-scale-range", act=case["act"], x=api.enc_tensor(xv)))
        return

    if case["kind"] == "calib":
        a_t = wq.qt(case["act"])
        cap = 60 if a_t.is_floating_point else 120  # the float8 activation queries rarely finish: reported as inconclusive
        mod = torch.nn.Linear(2, 1, dtype=dt)
        model = torch.nn.Sequential(mod)
        quantize(model, weights=wq.qt("qint8"), activations=a_t)
        x1 = (torch.randn(1, 2) * 2).to(dt)
        x2 = (torch.randn(1, 2) * 2).to(dt)
        with Session(res) as m:
            X1, X2 = m.symbolic(x1, "x1"), m.symbolic(x2, "x2")
            with torch.no_grad(), Calibration(streamline=False):
                model(x1)
            with torch.no_grad():
                y = model(x2)
            Y = m.read(y.dequantize() if hasattr(y, "dequantize") else y)
            IS, OS = m.read(model[0].input_scale).reshape(-1)[0], m.read(model[0].output_scale).reshape(-1)[0]
        b = bit.Bit(m.ctx)
        pre = [fin(b.tr(t)) for t in list(X1.reshape(-1)) + list(X2.reshape(-1))]
        path = [b.tr(c) if o else z3.Not(b.tr(c)) for c, o, k in m.path]
        res.paths += 0
        isz, osz = b.tr(IS), b.tr(OS)
        R_zero = z3.Or(z3.fpIsZero(isz), z3.fpIsZero(osz))
        R_over = z3.Or(z3.Not(fin(z3.fpMul(z3.RNE(), isz, z3.FPVal(128.0, isz.sort())))), z3.Not(fin(z3.fpMul(z3.RNE(), osz, z3.FPVal(128.0, osz.sort())))))
        for name, neg in (("calibrated-scales-finite-positive", z3.Or(z3.Not(fin(isz)), z3.Not(fin(osz)), z3.fpLT(isz, z3.FPVal(0, isz.sort())), z3.fpLT(osz, z3.FPVal(0, osz.sort())))), ("inference-finite-after-calibration", z3.And(z3.Not(R_zero), z3.Not(R_over), z3.Or(*[z3.Not(fin(b.tr(t))) for t in Y.reshape(-1)])))):
            v, secs, mdl = api.solve(pre + path + [neg], cap)
            res.query(name, "BIT", v, secs, sub="path: " + ",".join(str(o) for _, o, _ in m.path))
            if v == "sat":
                res.candidate("calib", "BIT", dict(kind="calib", act=case["act"], x1=api.enc_tensor(api.tensor_from_values(api.model_values(b, mdl, X1), (1, 2), dt)), x2=api.enc_tensor(api.tensor_from_values(api.model_values(b, mdl, X2), (1, 2), dt)), w=api.enc_tensor(model[0].weight.data), bias=api.enc_tensor(model[0].bias.data)), exact=True)
        for key, R in (("calibration-zero-batch", R_zero), ("calibration-scale-endpoint-overflow", z3.And(z3.Not(R_zero), R_over))):
            v, secs, mdl = api.solve(pre + path + [R, z3.Or(*[z3.Not(fin(b.tr(t))) for t in Y.reshape(-1)])], cap)
            res.query("known-region-witness", "BIT", v if v == "unknown" else "unsat", secs, sub=f"{key}: {'violating witness found' if v == 'sat' else 'no violation inside'}")
            if v == "sat":
                res.candidate("region-witness:" + key, "BIT", dict(kind="calib", act=case["act"], x1=api.enc_tensor(api.tensor_from_values(api.model_values(b, mdl, X1), (1, 2), dt)), x2=api.enc_tensor(api.tensor_from_values(api.model_values(b, mdl, X2), (1, 2), dt)), w=api.enc_tensor(model[0].weight.data), bias=api.enc_tensor(model[0].bias.data)), exact=False)
        return
    raise KeyError(case["kind"])


def replay(rec):
    from symt import api

    from optimum.quanto import Calibration, freeze, quantize

    inp = rec["inputs"]
    if inp["kind"] == "finite":
        w = api.dec_tensor(inp["w"])
        probs = finite_oracle(w, inp["qtype"], inp["axis"])
        regions = {p[1] for p in probs}
        key = None if (not probs or None in regions) else sorted("C16/" + r for r in regions)
        return bool(probs), "\n".join(p[0] for p in probs[:4]) or "finite", key
    if inp["kind"] == "dtype-sequence":
        from optimum.quanto import quantize_weight

        q_t = wq.qt(inp["qtype"])
        w = api.dec_tensor(inp["w"])
        # reference: the same call in a fresh process, without the warm-up in another dtype
        import subprocess
        import sys as _sys
        import json as _json

        code = "import sys, json, torch; sys.path.insert(0, %r); from symt import api; from checks import wq; from optimum.quanto import quantize_weight; inp = json.load(open(%r))['inputs']; w = api.dec_tensor(inp['w']); print(json.dumps(quantize_weight(w, wq.qt(inp['qtype']), 0).dequantize().double().tolist()))" % (os.path.dirname(os.path.dirname(os.path.abspath(__file__))), _sys.argv[1])
        fresh = _json.loads(subprocess.run([_sys.executable, "-c", code], capture_output=True, text=True).stdout.strip().splitlines()[-1])
        w1 = torch.tensor([[0.3, -0.2], [0.11, 0.4]], dtype=api.DT[inp["first"]])
        quantize_weight(w1, q_t, 0).dequantize()
        d = quantize_weight(w, q_t, 0).dequantize().double()
        f_ = torch.tensor(fresh, dtype=torch.float64)
        bad = not torch.equal(torch.nan_to_num(d, nan=1.2345e9), torch.nan_to_num(f_, nan=1.2345e9))
        return bad, f"quantize_weight({w.tolist()}, {inp['qtype']}) after quantizing a {inp['first']} tensor gives {d.tolist()}, in a fresh process {fresh}", None
    if inp["kind"] == "calib-scale-range":
        from fractions import Fraction

        from optimum.quanto import absmax_scale

        x = api.dec_tensor(inp["x"])
        a_t = wq.qt(inp["act"])
        qm = float(torch.finfo(a_t.dtype).max) if a_t.is_floating_point else 127.0
        s = float(absmax_scale(x, a_t))
        f_ = wq.fmt(x.dtype)
        am = float(x.double().abs().max())
        bad = Fraction(s) > Fraction(am) / Fraction(qm) * (1 + Fraction(4, 2 ** f_["p"])) + Fraction(2) ** (f_["emin"] - f_["p"] + 2)
        return bool(bad), f"absmax_scale({x.tolist()}, {inp['act']}) = {s} but absmax/qmax = {am/qm}", None
    if inp["kind"] == "zero-layer":
        x, bias = api.dec_tensor(inp["x"]), api.dec_tensor(inp["bias"])
        q_t = wq.qt(inp["qtype"])
        mod = torch.nn.Linear(2, 2, dtype=x.dtype) if inp["module"] == "linear" else torch.nn.Conv2d(1, 2, 1, dtype=x.dtype)
        with torch.no_grad():
            mod.weight.zero_()
            mod.bias.copy_(bias)
        model = torch.nn.Sequential(mod)
        quantize(model, weights=q_t)
        if inp["frozen"]:
            freeze(model)
        with torch.no_grad():
            y = model(x)
        yf = y.reshape(-1, 2) if inp["module"] == "linear" else y.reshape(2, -1).T
        ok = all(torch.equal(row, bias) for row in yf)
        key = ["C16/zero-scale-float8"] if (not ok and q_t.is_floating_point) else None
        return (not ok), f"zero-weight {inp['module']} ({inp['qtype']}, frozen={inp['frozen']}) on x={x.tolist()} returns {y.tolist()} instead of its bias {bias.tolist()}", key
    if inp["kind"] == "calib":
        x1, x2 = api.dec_tensor(inp["x1"]), api.dec_tensor(inp["x2"])
        mod = torch.nn.Linear(2, 1, dtype=x1.dtype)
        with torch.no_grad():
            mod.weight.copy_(api.dec_tensor(inp["w"]))
            mod.bias.copy_(api.dec_tensor(inp["bias"]))
        model = torch.nn.Sequential(mod)
        quantize(model, weights=wq.qt("qint8"), activations=wq.qt(inp["act"]))
        with torch.no_grad(), Calibration(streamline=False):
            model(x1)
        with torch.no_grad():
            y = model(x2)
        y = y.dequantize() if hasattr(y, "dequantize") else y
        s_in, s_out = float(model[0].input_scale), float(model[0].output_scale)
        bad = not torch.isfinite(y).all() or not (s_in == s_in and abs(s_in) != float("inf") and s_out == s_out and abs(s_out) != float("inf"))
        key = None
        if bad:
            f = wq.fmt(x1.dtype)
            if s_in == 0.0 or s_out == 0.0:
                key = ["C16/calibration-zero-batch"]
            elif s_in * 128 > f["fmax"] or s_out * 128 > f["fmax"]:
                key = ["C16/calibration-scale-endpoint-overflow"]
        return bad, f"calibrate on {x1.tolist()} then infer on {x2.tolist()} ({inp['act']}): scales {s_in}, {s_out}, output {y.tolist()}", key
    raise KeyError(inp["kind"])
