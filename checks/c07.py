"""C07 - Quantized matmul/linear kernels compute scale-corrected products on every path (DESIGN.md section 6, C07)."""
import itertools
import subprocess
import sys
from fractions import Fraction

import torch

from . import wq

EVIDENCE = dict(
    bounds="route agreement (ALG with exact-integer contractions): rows in {1,8,17,24}, in/out features in {3,4,8,12} (both sides of every size threshold in library/qbytes_mm.py and qbytes_ops.mm; plus, for every further integer literal L in 24..2048 that the current source of library/qbytes_mm.py, tensor/qbytes_ops.py, tensor/qtensor_func.py, nn/qlinear.py, library/ops.py uses as a possible size threshold, the shapes (L+1,8,8), (2L+1,4,3) and for L <= 128 (3,L,8), (17,8,L), (3,L+1,3) - none on the pinned tree), batch ranks 1-3, activations float/int8/float8 codes, weights int8/float8 codes, per-axis and per-tensor output scales, routes: default, integer GEMM, CPU selector, CUDA and MPS selector functions run on CPU tensors, the routed op; accuracy (RERR): integer routes for any K < 1024 (exact contraction cut to one variable), float routes K in {1,2}; finiteness (BIT): float16/bfloat16, K in {1,2}; linear level: F.linear / matmul / bmm with weights in all six qtypes, bias on/off, input ranks 2-3, repeated calls, in-place overwrite of the quantized weight between calls; torch.mm/matmul/bmm on quantized pairs incl. per-axis operands (scales along either axis of either operand) and the (24,8)x(8,8), (24,24)x(24,8) integer-GEMM shapes; a non-contiguous (transposed) rank-3 batch through every integer route",
    outside="the CUDA _int_mm / AWQ gemm and MPS kernels themselves; torch._weight_int8pack_mm numerics (bfloat16 x int8 on CPU: see known finding, the kernel crashes in this torch build and is not executed in-process); float accumulation for K > 2 (the per-term error model is uniform in K but that is not a solver result)",
    assumptions=[
        "a float32 contraction of exact 8-bit integer casts is exact below 2^24 in any summation order (rewritten to the integer contraction; validated against the real kernel's value on every executed op)",
        "RERR standard model for the scale multiplications and casts",
    ],
)
CASE_DEADLINE = dict(quick=600.0, thorough=1500.0)

THRESHOLD_FILES = ["optimum/quanto/library/qbytes_mm.py", "optimum/quanto/tensor/qbytes_ops.py", "optimum/quanto/tensor/qtensor_func.py", "optimum/quanto/nn/qlinear.py", "optimum/quanto/library/ops.py"]
PINNED_THRESHOLDS = {32: 2}


def cases(tier, seed):
    out = []
    shapes = [(1, 3, 3), (8, 4, 8), (17, 8, 4), (24, 8, 8), (3, 12, 4)] if tier == "quick" else [(r, k, n) for r in (1, 8, 16, 17, 24) for k in (3, 4, 8, 12) for n in (3, 4, 8)]
    for dt in ("float32", "float16") + (("bfloat16",) if tier == "thorough" else ()):
        for a in ("float", "qint8", "qfloat8_e4m3fn"):
            for w in ("qint8", "qfloat8_e4m3fn") + (("qfloat8_e5m2",) if tier == "thorough" else ()):
                n = 2 if tier == "quick" else 6
                for i in range(0, len(shapes), n):
                    out.append(dict(kind="routes", dtype=dt, act=a, w=w, shapes=[list(s) for s in shapes[i : i + n]]))
    for dt in ("float32", "float16", "bfloat16"):
        out.append(dict(kind="accuracy-int", dtype=dt))
        for a in ("float", "qfloat8_e4m3fn"):
            for w in ("qint8", "qfloat8_e4m3fn"):
                out.append(dict(kind="accuracy-float", dtype=dt, act=a, w=w, K=1))
                if tier == "thorough":
                    out.append(dict(kind="accuracy-float", dtype=dt, act=a, w=w, K=2))
                for K in (4, 16) if tier == "quick" else (3, 4, 16, 64):
                    if dt == "bfloat16" and a == "float" and w == "qint8" and K % 4 == 0:
                        continue  # routed to torch._weight_int8pack_mm, which crashes in this torch build (known finding): never run in-process
                    out.append(dict(kind="accuracy-cut", dtype=dt, act=a, w=w, K=K))
    for dt in ("float16", "bfloat16"):
        for a in ("float", "qint8", "qfloat8_e4m3fn"):
            for w in ("qint8", "qfloat8_e4m3fn"):
                out.append(dict(kind="finite", dtype=dt, act=a, w=w, K=2))
    for dt in ("float32", "float16"):
        for w in wq.QT8 + wq.QTB:
            for a in (None, "qint8"):
                out.append(dict(kind="linear", dtype=dt, act=a, w=w))
    for dt in ("float32", "float16"):
        for a in ("qint8", "qfloat8_e4m3fn", "qfloat8_e5m2"):
            for w in ("qint8", "qfloat8_e4m3fn"):
                out.append(dict(kind="mm-dispatch", dtype=dt, act=a, w=w))
    out.append(dict(kind="int8pack-crash"))
    # shapes derived from integer size thresholds of the current source that the fixed catalogue above does not straddle
    # (on the pinned tree the only literals >= 24 are the two `% 32` tests of the MPS selector, which lead to the crashing
    # torch._weight_int8pack_mm and are never run in-process)
    for L, where in sorted(wq.size_thresholds(THRESHOLD_FILES, hi=2048).items()):
        if len(where) <= PINNED_THRESHOLDS.get(L, 0):
            continue
        extra = [(L + 1, 8, 8), (2 * L + 1, 4, 3)] + ([(3, L, 8), (17, 8, L), (3, L + 1, 3)] if L <= 128 else [])
        for a in ("float", "qint8"):
            for w in ("qint8", "qfloat8_e4m3fn"):
                out.append(dict(kind="routes", dtype="float32", act=a, w=w, shapes=[list(s) for s in extra], threshold=f"{L} at {where[-1]}"))
    return out


def _act(kind, rows_shape, dt):
    """activation payload tensor + scale (None for float activations)"""
    if kind == "float":
        return (torch.randn(rows_shape) * 2).to(dt), None
    if kind == "qint8":
        return torch.randint(-128, 128, rows_shape, dtype=torch.int8), (torch.rand(()) * 0.05 + 0.01).to(dt)
    q = wq.qt(kind)
    return (torch.randn(rows_shape) * 20).to(q.dtype), (torch.rand(()) * 0.05 + 0.01).to(dt)


def _weight(kind, n, k, dt, per_axis=True):
    q = wq.qt(kind)
    data = torch.randint(-128, 128, (n, k), dtype=torch.int8) if not q.is_floating_point else (torch.randn(n, k) * 20).to(q.dtype)
    scale = (torch.rand((n, 1) if per_axis else ()) * 0.05 + 0.01).to(dt)
    return data, scale


def crash_probe():
    code = "import torch; x=torch.ones(1,4,dtype=torch.bfloat16); w=torch.ones(2,4,dtype=torch.int8); s=torch.ones(2,dtype=torch.bfloat16); import optimum.quanto; from optimum.quanto.library.qbytes_mm import qbytes_int8pack_mm; o=qbytes_int8pack_mm(x,w,s.reshape(2,1)); print('OUT', o.float().tolist())"
    r = subprocess.run([sys.executable, "-c", code], capture_output=True, text=True, timeout=300)
    return r.returncode, (r.stdout + r.stderr)[-300:]


def run_case(case, res):
    import numpy as np
    import z3

    from symt import api, bit, rerr
    from symt import terms as tm
    from symt.api import Session
    from symt.rerr import rv, zabs

    import optimum.quanto  # noqa
    from optimum.quanto.library import qbytes_mm as lib
    from optimum.quanto.tensor import QBytesTensor

    if case["kind"] == "int8pack-crash":
        rc, out = crash_probe()
        ok = rc == 0 and "OUT [[4.0, 4.0]]" in out
        res.side_ok("bf16-int8pack-route-runs", ok, f"rc={rc} {out}")
        if not ok:
            res.side[-1]["replayed"] = True
            res.candidate("region-witness:bf16-int8pack-crash", "side", dict(kind="int8pack-crash"), exact=False)
        return
    dt = api.DT[case["dtype"]]
    f = tm.FMT[dt]
    u = Fraction(1, 2 ** f["p"])
    eta = Fraction(2) ** (f["emin"] - f["p"])
    fin = lambda e: z3.Not(z3.Or(z3.fpIsNaN(e), z3.fpIsInf(e)))  # noqa

    def same(A, B):
        return A.shape == B.shape and all(x is y for x, y in zip(A.reshape(-1), B.reshape(-1)))

    if case["kind"] == "routes":
        for rows, K, N in case["shapes"]:
            for batch in ((rows,), (1, rows), (2, 1, rows), ("T", 2, rows)) if rows <= 8 else ((rows,),):
                transposed = batch[0] == "T"  # a non-contiguous batch: (rows, 2, K) seen through transpose(0, 1)
                batch = batch[1:] if transposed else batch
                if transposed and not (case["act"] == "qint8" and case["w"] == "qint8"):
                    # float contractions of differently laid out operands go through different kernels whose accumulation
                    # orders differ in the last bit: only the exact integer contraction is compared across layouts
                    continue
                for per_axis in (True, False):
                    a, sa = _act(case["act"], (*batch, K), dt)
                    if transposed:
                        a = a.transpose(0, 1).contiguous().transpose(0, 1)
                    w, sw = _weight(case["w"], N, K, dt, per_axis)
                    bf16_int8pack = dt == torch.bfloat16 and a.dtype == torch.bfloat16 and w.dtype == torch.int8 and K % 4 == 0
                    cfg = f"a={case['act']}{tuple(a.shape)}{' non-contiguous' if transposed else ''} w={case['w']}({N},{K}) per_axis={per_axis}"
                    with Session(res) as m:
                        A, W = m.symbolic(a, "a"), m.symbolic(w, "w")
                        SW = m.symbolic(sw, "sw")
                        scales = sw
                        if sa is not None:
                            SA = m.symbolic(sa, "sa")
                            scales = sa * sw
                        outs, raised = {}, {}

                        def route(name_, fn_):
                            try:
                                outs[name_] = fn_()
                            except (api.Unsupported, api.ModelMismatch):
                                raise
                            except Exception as e_:  # noqa  (the float reference below is valid: a route must not raise)
                                raised[name_] = f"{type(e_).__name__}: {str(e_)[:120]}"

                        route("default", lambda: lib.qbytes_mm(a, w, scales))
                        if a.dtype == torch.int8 and w.dtype == torch.int8:
                            route("int_mm", lambda: lib.qbytes_int_mm(a, w, scales))
                        op = torch.ops.quanto.qbytes_mm.default
                        DK = torch._C.DispatchKey

                        def under_mode(fn_):
                            with m:
                                return fn_()

                        if not bf16_int8pack:
                            # the selector functions are plain Python over tensors: each is driven through its dispatch key on CPU tensors
                            route("cpu-selector", lambda: under_mode(lambda: op._op_dk(DK.CPU, a, w, scales)))
                            route("routed-op", lambda: torch.ops.quanto.qbytes_mm(a, w, scales))
                        if a.ndim in (2, 3):
                            route("cuda-selector", lambda: under_mode(lambda: op._op_dk(DK.CUDA, a, w, scales)))
                        T = {k: m.read(v) for k, v in outs.items()}
                        # independent reference: sum_k a_k w_k in float32 (exact for integer operands), times the scale of
                        # output feature j, cast to the scale dtype
                        mmdt = torch.float32 if (a.dtype == torch.int8 or w.dtype == torch.int8) else scales.dtype
                        ref = ((a.to(mmdt).reshape(-1, K) @ w.to(mmdt).t()) * scales.reshape(1, -1)).to(scales.dtype).reshape(*batch, N)
                        R = m.read(ref)
                    meta = all(tuple(v.shape) == (*batch, N) and v.dtype == scales.dtype for v in outs.values())
                    res.side_ok("route-output-shape-dtype", meta, cfg)
                    bad = [k for k, v in T.items() if not same(v, R)] + sorted(raised)
                    if raised:
                        res.side_ok("route-does-not-raise", False, f"{cfg}: {raised}")
                        res.side[-1]["replayed"] = True
                    res.query("all-routes-equal-reference", "ALG", "unsat" if not bad and meta else "sat", 0.0, sub=cfg + f" routes={sorted(T)}", nvars=a.numel() + w.numel() + sw.numel())
                    if bad or not meta:
                        res.candidate("routes", "ALG", dict(kind="routes", dtype=case["dtype"], a=api.enc_tensor(a.float() if a.dtype.is_floating_point and a.element_size() == 1 else a), a_dtype=str(a.dtype), w=api.enc_tensor(w.float() if w.dtype.is_floating_point else w), w_dtype=str(w.dtype), sw=api.enc_tensor(sw), sa=api.enc_tensor(sa) if sa is not None else None, routes=bad), note=f"routes {bad} deviate")
        return

    if case["kind"] == "accuracy-int":
        # int8 x int8: out = cast(fl32(N_exact * fl(sa*sw)));   reference N*sa*sw.   N cut to one variable.
        a = torch.randint(-128, 128, (1, 3), dtype=torch.int8)
        w = torch.randint(-128, 128, (1, 3), dtype=torch.int8)
        sa, sw = torch.tensor(0.03, dtype=dt), torch.tensor([[0.02]], dtype=dt)
        with Session(res) as m:
            A, W, SA, SW = m.symbolic(a, "a"), m.symbolic(w, "w"), m.symbolic(sa, "sa"), m.symbolic(sw, "sw")
            out = torch.ops.quanto.qbytes_mm(a, w, sa * sw)
            O = m.read(out).reshape(-1)[0]
        ctx = m.ctx
        dots = api.find_nodes([O], lambda t: t.op == "dot" and t.dt == torch.int32)
        if len(dots) != 1:
            res.query("accuracy-integer-route", "RERR", "unknown", 0.0, note=f"{len(dots)} integer contractions found")
            return
        (Oc,), cmap, _ = api.cut(ctx, [O], dots, "N")
        r = rerr.Rerr(ctx)
        o, nvar, sar, swr = r.tr(Oc), r.tr(cmap[dots[0].uid]), r.tr(SA.reshape(-1)[0]), r.tr(SW.reshape(-1)[0])
        ref = nvar * sar * swr
        pre = r.cons + [sar > 0, swr > 0, nvar <= 2**24, nvar >= -(2**24)]
        for sgn in (1, -1):
            an = nvar if sgn > 0 else -nvar
            for gi, g in enumerate((o - ref, ref - o)):
                v, secs, mdl = api.solve(pre + [an >= 0, g > rv(6 * u) * an * sar * swr + rv(4 * eta) * (1 + an)], 60)
                res.query("accuracy-integer-route", "RERR", v, secs, sub=f"sign{sgn} side{gi}")
                if v == "sat":
                    res.candidate("accuracy", "RERR", dict(kind="accuracy", dtype=case["dtype"], a=api.enc_tensor(a), a_dtype="torch.int8", w=api.enc_tensor(w), w_dtype="torch.int8", sw=api.enc_tensor(sw), sa=api.enc_tensor(sa), bias=None))
        return

    if case["kind"] == "accuracy-float":
        K = case["K"]
        a, sa = _act(case["act"], (1, K), dt)
        w, sw = _weight(case["w"], 1, K, dt)
        with Session(res) as m:
            A, W, SW = m.symbolic(a, "a"), m.symbolic(w, "w"), m.symbolic(sw, "sw")
            scales = sw
            if sa is not None:
                SA = m.symbolic(sa, "sa")
                scales = sa * sw
            O = m.read(torch.ops.quanto.qbytes_mm(a, w, scales)).reshape(-1)[0]
        r = rerr.Rerr(m.ctx)
        o = r.tr(O)
        av, wv = [r.tr(t) for t in A.reshape(-1)], [r.tr(t) for t in W.reshape(-1)]
        s = r.tr(SW.reshape(-1)[0]) * (r.tr(SA.reshape(-1)[0]) if sa is not None else 1)
        ref = sum(x * y for x, y in zip(av, wv)) * s
        mag0 = sum(zabs(x * y) for x, y in zip(av, wv))
        mag = mag0 * s
        pre = r.cons + [r.tr(SW.reshape(-1)[0]) > 0] + ([r.tr(SA.reshape(-1)[0]) > 0] if sa is not None else []) + [z3.And(x <= 448, x >= -448) for x in av if case["act"] != "float"] + [z3.And(x <= 448, x >= -448) for x in wv]
        for gi, g in enumerate((o - ref, ref - o)):
            v, secs, mdl = api.solve(pre + [g > rv((K + 8) * u) * mag + rv(8 * eta) * (1 + mag + mag0)], 90)
            res.query("accuracy-float-route", "RERR", v, secs, sub=f"K={K} side{gi}")
            if v == "sat":
                res.candidate("accuracy", "RERR", dict(kind="accuracy", dtype=case["dtype"], a=api.enc_tensor(api.tensor_from_values(api.real_model_values(r, mdl, A, torch.float32), (1, K), torch.float32)), a_dtype=str(a.dtype), w=api.enc_tensor(api.tensor_from_values(api.real_model_values(r, mdl, W, torch.float32), (1, K), torch.float32)), w_dtype=str(w.dtype), sw=api.enc_tensor(api.tensor_from_values(api.real_model_values(r, mdl, SW, dt), tuple(sw.shape), dt)), sa=api.enc_tensor(api.tensor_from_values(api.real_model_values(r, mdl, SA, dt), (), dt)) if sa is not None else None, bias=None))
        return

    if case["kind"] == "accuracy-cut":
        # any K: the float contraction node is cut to a variable N constrained by the accumulation-error model of the kernel
        # (|N - R| <= gamma_K * M with R = sum a_k w_k, M = sum |a_k w_k|, any summation order); what quanto adds on top - the
        # scale product, the scaling and the casts - is then decided for all N, R, M and scales
        K = case["K"]
        a, sa = _act(case["act"], (1, K), dt)
        w, sw = _weight(case["w"], 1, K, dt)
        with Session(res) as m:
            A, W, SW = m.symbolic(a, "a"), m.symbolic(w, "w"), m.symbolic(sw, "sw")
            scales = sw
            if sa is not None:
                SA = m.symbolic(sa, "sa")
                scales = sa * sw
            O = m.read(torch.ops.quanto.qbytes_mm(a, w, scales)).reshape(-1)[0]
        ctx = m.ctx
        dots = api.find_nodes([O], lambda t: t.op == "dot")
        if len(dots) != 1:
            res.query("accuracy-any-K", "RERR", "unknown", 0.0, note=f"{len(dots)} contraction nodes")
            return
        dnode = dots[0]
        (Oc,), cmap, _ = api.cut(ctx, [O], [dnode], "N")
        r = rerr.Rerr(ctx)
        o, nvar = r.tr(Oc), r.tr(cmap[dnode.uid])
        R, M = z3.Real("R"), z3.Real("M")
        mmf = tm.FMT[dnode.dt] if dnode.dt in tm.FLOATS else None
        gamma = Fraction(0) if mmf is None else Fraction(K * 101, 100 * 2 ** mmf["p"])
        s = r.tr(SW.reshape(-1)[0]) * (r.tr(SA.reshape(-1)[0]) if sa is not None else 1)
        pre = r.cons + [M >= 0, R <= M, -R <= M, nvar - R <= rv(gamma) * M, R - nvar <= rv(gamma) * M, r.tr(SW.reshape(-1)[0]) > 0] + ([r.tr(SA.reshape(-1)[0]) > 0] if sa is not None else [])
        if mmf is None:
            pre += [M <= 2**24]
        ref = R * s
        v, secs, _ = api.solve(pre + [M > 1, s > rv(Fraction(1, 100))], 30)
        res.query("vacuity-accuracy-any-K", "RERR", "unsat" if v == "sat" else "unknown", secs, symbolic=False)
        v, secs, _ = api.solve(pre + [o - ref > rv(Fraction(1, 2)) * (rv(gamma) + rv(u)) * M * s + rv(8 * eta) * (1 + M + M * s)], 60)
        res.query("sanity-half-bound-is-violable", "RERR", "unsat" if v == "sat" else "unknown", secs, symbolic=False, note="a bound half as large must be refutable, else the query is vacuous")
        for gi, g in enumerate((o - ref, ref - o)):
            v, secs, mdl = api.solve(pre + [g > (rv(gamma) + rv(8 * u)) * M * s + rv(8 * eta) * (1 + M + M * s)], 90)
            res.query("accuracy-any-K", "RERR", v, secs, sub=f"K={K} contraction dtype {api.dtn(dnode.dt)} side{gi}")
            if v == "sat":
                res.candidate("accuracy", "RERR", dict(kind="accuracy", dtype=case["dtype"], a=api.enc_tensor(a.float() if a.dtype.is_floating_point and a.element_size() == 1 else a), a_dtype=str(a.dtype), w=api.enc_tensor(w.float() if w.dtype.is_floating_point else w), w_dtype=str(w.dtype), sw=api.enc_tensor(sw), sa=api.enc_tensor(sa) if sa is not None else None, bias=None), note="abstract model over the cut contraction; seed as witness")
        return

    if case["kind"] == "finite":
        K = case["K"]
        a, sa = _act(case["act"], (1, K), dt)
        w, sw = _weight(case["w"], 1, K, dt)
        with Session(res) as m:
            A, W, SW = m.symbolic(a, "a"), m.symbolic(w, "w"), m.symbolic(sw, "sw")
            scales = sw
            if sa is not None:
                SA = m.symbolic(sa, "sa")
                scales = sa * sw
            O = m.read(torch.ops.quanto.qbytes_mm(a, w, scales)).reshape(-1)[0]
        b = bit.Bit(m.ctx)
        oz = b.tr(O)
        f32 = z3.FPSort(8, 24)
        up = lambda e: e if e.sort() == f32 else (z3.fpToFP(z3.RNE(), e, f32) if z3.is_fp(e) else z3.fpSignedToFP(z3.RNE(), e, f32))  # noqa
        av, wv = [up(b.tr(t)) for t in A.reshape(-1)], [up(b.tr(t)) for t in W.reshape(-1)]
        sz = up(b.tr(SW.reshape(-1)[0]))
        if sa is not None:
            sz = z3.fpMul(z3.RNE(), sz, up(b.tr(SA.reshape(-1)[0])))
        # reference representable: each scaled product and their sum are comfortably inside the output dtype (computed in float32)
        prods = [z3.fpMul(z3.RNE(), z3.fpMul(z3.RNE(), x, y), sz) for x, y in zip(av, wv)]
        tot = prods[0]
        for p in prods[1:]:
            tot = z3.fpAdd(z3.RNE(), tot, p)
        lim = z3.FPVal(f["fmax"] / 4, f32)
        pre = b.side + [fin(x) for x in av + wv] + [fin(sz), z3.fpGT(sz, z3.FPVal(0, f32))] + [z3.fpLT(z3.fpAbs(p), lim) for p in prods] + [z3.fpLT(z3.fpAbs(tot), lim)]
        # scales are positive and their product is representable in the scale dtype (precondition)
        swz = b.tr(SW.reshape(-1)[0])
        pre += [z3.fpGT(swz, z3.FPVal(0, swz.sort()))]
        if sa is not None:
            saz = b.tr(SA.reshape(-1)[0])
            pre += [z3.fpGT(saz, z3.FPVal(0, saz.sort())), fin(z3.fpMul(z3.RNE(), saz, swz))]
        # known-finding region: the UNSCALED accumulation overflows the dtype the matmul runs in
        mm_sort = f32 if (a.dtype == torch.int8 or w.dtype == torch.int8) else swz.sort()
        dn = lambda e: e if e.sort() == mm_sort else z3.fpToFP(z3.RNE(), e, mm_sort)  # noqa
        ups = [z3.fpMul(z3.RNE(), dn(x), dn(y)) for x, y in zip(av, wv)]
        usum = ups[0]
        for p in ups[1:]:
            usum = z3.fpAdd(z3.RNE(), usum, p)
        R_unscaled = z3.Or(z3.Not(fin(usum)), *[z3.Not(fin(p)) for p in ups])

        def vals(arr, tdt):
            return api.enc_tensor(api.tensor_from_values(api.model_values(b, mdl, arr), tuple(np.asarray(arr).shape), torch.float32 if tdt in (tm.E4M3, tm.E5M2) else tdt))

        v, secs, mdl = api.solve(pre + [z3.Not(R_unscaled), z3.Not(fin(oz))], 420)  # float16 x e4m3fn K=2 needs ~240 s
        res.query("finite-when-reference-representable", "BIT", v, secs, sub=f"K={K} outside the unscaled-overflow region")
        if v == "sat":
            res.candidate("finite", "BIT", dict(kind="accuracy", dtype=case["dtype"], a=vals(A, a.dtype), a_dtype=str(a.dtype), w=vals(W, w.dtype), w_dtype=str(w.dtype), sw=vals(SW, dt), sa=vals(SA, dt) if sa is not None else None, bias=None), exact=True)
        v, secs, mdl = api.solve(pre + [R_unscaled, z3.Not(fin(oz))], 120)
        res.query("known-region-witness", "BIT", v if v == "unknown" else "unsat", secs, sub=f"unscaled-accumulation-overflow: {'violating witness found' if v == 'sat' else 'no violation inside'}")
        if v == "sat":
            res.candidate("region-witness:unscaled-accumulation-overflow", "BIT", dict(kind="accuracy", dtype=case["dtype"], a=vals(A, a.dtype), a_dtype=str(a.dtype), w=vals(W, w.dtype), w_dtype=str(w.dtype), sw=vals(SW, dt), sa=vals(SA, dt) if sa is not None else None, bias=None), exact=False)
        return

    if case["kind"] == "mm-dispatch":
        # torch.mm / matmul / bmm on two quantized tensors (aten dispatch, not F.linear): equal to the product of the dequantized
        # operands; term identity where the implementation dequantizes, otherwise finiteness (BIT) and a replayed tolerance
        qa_t, qb_t = wq.qt(case["act"]), wq.qt(case["w"])
        both_int = case["act"] == "qint8" and case["w"] == "qint8"
        def axscale(shape, axis):
            if axis is None:
                return (torch.rand(()) * 0.05 + 0.01).to(dt)
            sh = [1] * len(shape)
            sh[axis] = shape[axis]
            return (torch.rand(sh) * 0.05 + 0.01).to(dt)

        combos = []
        for opname, shapes in (("mm", ((2, 3), (3, 2))), ("matmul", ((2, 3), (3, 2))), ("bmm", ((1, 2, 3), (1, 3, 2)))) + ((("mm", ((24, 8), (8, 8))),) if both_int else ()):
            combos.append((opname, shapes, None, None))
            if opname != "matmul":
                # per-axis operands (scales along the first or last axis of either operand, incl. along the contracted dimension)
                for axa, axb in ((0, None), (-1, None), (None, 0), (None, -1), (0, -1), (-1, 0)):
                    combos.append((opname, shapes, axa, axb))
        if both_int:
            combos += [("mm", ((24, 24), (24, 8)), None, 0), ("mm", ((24, 8), (8, 8)), -1, None)]  # dims coincide: a mis-broadcast is silent
        for opname, shapes, axa, axb in combos:
            da, _ = _act(case["act"], shapes[0], dt)
            db, _ = _act(case["w"], shapes[1], dt)
            sa, sb = axscale(shapes[0], axa), axscale(shapes[1], axb)
            with Session(res) as m:
                A, B = m.symbolic(da, "a"), m.symbolic(db, "b")
                SA, SB = m.symbolic(sa, "sa"), m.symbolic(sb, "sb")
                qa = QBytesTensor(qa_t, axa, da.size(), da.stride(), da, sa)
                qb = QBytesTensor(qb_t, axb, db.size(), db.stride(), db, sb)
                fn = {"mm": torch.mm, "matmul": torch.matmul, "bmm": torch.bmm}[opname]
                try:
                    out = fn(qa, qb)
                except Exception as e:  # noqa
                    res.side_ok("mm-dispatch-runs", False, f"{opname} {case['act']}{shapes[0]} axis={axa} x {case['w']}{shapes[1]} axis={axb}: {type(e).__name__}: {e}")
                    res.side[-1]["replayed"] = True
                    res.candidate("mm-dispatch", "side", dict(kind="mm-dispatch", op=opname, dtype=case["dtype"], qa=case["act"], qb=case["w"], axa=axa, axb=axb, a=api.enc_tensor(da.float() if da.dtype.is_floating_point else da), b=api.enc_tensor(db.float() if db.dtype.is_floating_point else db), sa=api.enc_tensor(sa), sb=api.enc_tensor(sb)), exact=True)
                    continue
                ref = fn(qa.dequantize(), qb.dequantize())
                O, R = m.read(out), m.read(ref)
                R2 = R
                if both_int and axa in (None, 0) and axb in (None, -1):
                    # the integer form whose accuracy the accuracy-int clause bounds: exact contraction, float32 scale product, one cast
                    R2 = m.read((fn(da.to(torch.float32), db.to(torch.float32)) * (sa * sb).to(torch.float32)).to(dt))
            cfg = f"{opname} {case['act']}{shapes[0]} axis={axa} x {case['w']}{shapes[1]} axis={axb}"
            res.side_ok("mm-dispatch-shape-dtype", tuple(out.shape) == tuple(ref.shape) and out.dtype == ref.dtype, cfg)
            if same(O, R) or same(O, R2):
                res.query("mm-equals-dequantized-product", "ALG", "unsat", 0.0, sub=cfg)
                continue
            enc = dict(kind="mm-dispatch", op=opname, dtype=case["dtype"], qa=case["act"], qb=case["w"], axa=axa, axb=axb, a=api.enc_tensor(da.float() if da.dtype.is_floating_point else da), b=api.enc_tensor(db.float() if db.dtype.is_floating_point else db), sa=api.enc_tensor(sa), sb=api.enc_tensor(sb))
            res.candidate("region-witness:mm-tolerance", "ALG", enc)
            if dt in (torch.float16, torch.bfloat16) and not both_int:
                b_ = bit.Bit(m.ctx)
                pre = [fin(e) for e in (b_.tr(t) for t in list(A.reshape(-1)) + list(B.reshape(-1))) if z3.is_fp(e)]
                for s_ in (SA, SB):
                    for st_ in s_.reshape(-1):
                        e_ = b_.tr(st_)
                        pre += [z3.fpGT(e_, z3.FPVal(2.0**-10, e_.sort())), z3.fpLT(e_, z3.FPVal(1.0, e_.sort()))]
                goal = [z3.And(*[fin(b_.tr(t)) for t in R.reshape(-1)]), z3.Or(*[z3.Not(fin(b_.tr(t))) for t in O.reshape(-1)])]
                v, secs, mdl = api.solve(list(b_.side) + pre + goal, 120)  # side (float8 grid membership) is complete only after every translation
                res.query("mm-finite-when-dequantized-product-is", "BIT", v, secs, sub=cfg)
                if v == "sat":
                    def vals(arr, tt):
                        return api.enc_tensor(api.tensor_from_values(api.model_values(b_, mdl, arr), tuple(np.asarray(arr).shape), torch.float32 if tt.dtype in (tm.E4M3, tm.E5M2) else tt.dtype))
                    res.candidate("mm-dispatch", "BIT", dict(enc, a=vals(A, da), b=vals(B, db), sa=vals(SA, sa), sb=vals(SB, sb)), exact=True)
        return

    if case["kind"] == "linear":
        from optimum.quanto import quantize_activation, quantize_weight

        q_w = wq.qt(case["w"])
        for xshape in ((2, 4), (2, 1, 4)):
            for use_bias in (True, False):
                x = (torch.randn(xshape) * 2).to(dt)
                w = (torch.randn(3, 4) * 1.5).to(dt)
                bias = torch.randn(3).to(dt) if use_bias else None
                s_in = torch.tensor(0.05, dtype=dt)
                cfg = f"x{xshape} bias={use_bias}"
                with Session(res) as m:
                    X, W = m.symbolic(x, "x"), m.symbolic(w, "w")
                    B = m.symbolic(bias, "b") if use_bias else None
                    qw = quantize_weight(w, q_w, 0)
                    xin = quantize_activation(x, wq.qt(case["act"]), s_in) if case["act"] else x
                    winner = [m.read(t).copy() for t in ((qw._data, qw._scale) if q_w.bits == 8 else (qw._data._data, qw._scale, qw._zeropoint))]
                    y1 = torch.nn.functional.linear(xin, qw, bias)
                    y2 = torch.nn.functional.linear(xin, qw, bias)
                    winner2 = [m.read(t) for t in ((qw._data, qw._scale) if q_w.bits == 8 else (qw._data._data, qw._scale, qw._zeropoint))]
                    Y1, Y2 = m.read(y1), m.read(y2)
                    # history: overwrite the same quantized weight in place, multiply again: must be what a fresh weight gives
                    stale = None
                    if q_w.bits == 8:
                        w2 = (torch.randn(3, 4) * 0.7).to(dt)
                        W2 = m.symbolic(w2, "w2")
                        qw.copy_(quantize_weight(w2, q_w, 0))
                        y3 = torch.nn.functional.linear(xin, qw, bias)
                        y4 = torch.nn.functional.linear(xin, quantize_weight(w2, q_w, 0), bias)
                        stale = not same(m.read(y3), m.read(y4))
                        qw = quantize_weight(w, q_w, 0)
                    xd = xin.dequantize() if case["act"] else x
                    ref = torch.matmul(xd, qw.dequantize().t())
                    if bias is not None:
                        ref = ref + bias
                    R = m.read(ref)
                ok_meta = tuple(y1.shape) == tuple(ref.shape) and y1.dtype == ref.dtype
                res.side_ok("linear-output-shape-dtype", ok_meta, f"{cfg}: {tuple(y1.shape)} {y1.dtype} vs {tuple(ref.shape)} {ref.dtype}")
                pure = same(Y1, Y2) and all(same(p, q_) for p, q_ in zip(winner, winner2))
                res.query("linear-is-pure", "ALG", "unsat" if pure else "sat", 0.0, sub=cfg)
                if stale is not None:
                    res.query("linear-reflects-in-place-weight-update", "ALG", "unsat" if not stale else "sat", 0.0, sub=cfg)
                    if stale:
                        res.candidate("linear", "ALG", dict(kind="linear-update", dtype=case["dtype"], act=case["act"], wq=case["w"], x=api.enc_tensor(x), w=api.enc_tensor(w), w2=api.enc_tensor(w2), bias=api.enc_tensor(bias) if use_bias else None), note="result after an in-place weight update differs from a fresh weight")
                enc = dict(kind="linear", dtype=case["dtype"], act=case["act"], wq=case["w"], x=api.enc_tensor(x), w=api.enc_tensor(w), bias=api.enc_tensor(bias) if use_bias else None)
                if not pure or not ok_meta:
                    res.candidate("linear", "ALG", enc, note="second call differs / operand modified")
                if q_w.bits < 8 and not case["act"]:
                    eq = api.equal_modulo_bits(m.ctx, Y1, R, q_w.bits, None)
                    res.query("lowbit-linear-equals-dequantized-product", "ALG", "unsat" if eq else "sat", 0.0, sub=cfg)
                    if not eq:
                        res.candidate("linear", "ALG", enc)
                else:
                    # 8-bit: concrete accuracy on the seed is part of the replay oracle; the symbolic accuracy is the
                    # route clause above - here the support must be right: output (i,j) depends on x row i and w row j only
                    bad = None
                    Ys = Y1
                    if q_w.bits < 8:
                        mp = api.unpack_lemma(m.ctx, list(Y1.reshape(-1)), q_w.bits, None)
                        Ys = api.obj_array(Y1.shape, api.subst(m.ctx, list(Y1.reshape(-1)), mp or {}))
                    Yf, Xf = Ys.reshape(-1, 3), X.reshape(-1, 4)
                    for i in range(Yf.shape[0]):
                        for j in range(3):
                            allowed = {t.args[0] for t in Xf[i]} | {t.args[0] for t in W[j]} | ({B[j].args[0]} if use_bias else set())
                            sup = tm.support([Yf[i, j]])
                            if not sup <= allowed:
                                bad = (i, j, sorted(sup - allowed)[:3])
                    res.query("linear-output-support", "ALG", "unsat" if bad is None else "sat", 0.0, sub=cfg)
                    if bad:
                        res.candidate("linear", "ALG", enc, note=f"output {bad[:2]} depends on {bad[2]}")
        return
    raise KeyError(case["kind"])


def _payload(enc, dtype_str):
    from symt import api

    t = api.dec_tensor(enc)
    dt = getattr(torch, dtype_str.replace("torch.", ""))
    return t.to(dt)


def replay(rec):
    from symt import api

    import optimum.quanto  # noqa
    from optimum.quanto.library import qbytes_mm as lib

    inp = rec["inputs"]
    if inp["kind"] == "int8pack-crash":
        rc, out = crash_probe()
        bad = rc != 0 or "OUT [[4.0, 4.0]]" not in out
        return bad, f"bfloat16 activations x int8 weights through torch._weight_int8pack_mm: rc={rc} {out}", ["C07/bf16-int8pack-crash"] if bad else None
    dt = api.DT[inp["dtype"]]
    if inp["kind"] in ("routes", "accuracy"):
        a, w = _payload(inp["a"], inp["a_dtype"]), _payload(inp["w"], inp["w_dtype"])
        sw = api.dec_tensor(inp["sw"])
        sa = api.dec_tensor(inp["sa"]) if inp.get("sa") is not None else None
        scales = sw if sa is None else sa * sw
        K = a.shape[-1]
        ref = (a.double().reshape(-1, K) @ w.double().t()) * scales.double().reshape(1, -1)
        mag = (a.double().abs().reshape(-1, K) @ w.double().abs().t()) * scales.double().reshape(1, -1)
        outs, probs = {}, []
        routes = {"routed-op": lambda: torch.ops.quanto.qbytes_mm(a, w, scales), "default": lambda: lib.qbytes_mm(a, w, scales)}
        if a.dtype == torch.int8 and w.dtype == torch.int8:
            routes["int_mm"] = lambda: lib.qbytes_int_mm(a, w, scales)
        if a.ndim in (2, 3):
            routes["cuda-selector"] = lambda: torch.ops.quanto.qbytes_mm.default._op_dk(torch._C.DispatchKey.CUDA, a, w, scales)
        for k_, fn_ in routes.items():
            try:
                outs[k_] = fn_()
            except Exception as e_:  # noqa
                probs.append(f"route {k_} raises {type(e_).__name__}: {str(e_)[:160]} (activations {tuple(a.shape)} strides {a.stride()})")
        f = wq.fmt(dt)
        u = 2.0 ** -f["p"]
        both_f8 = a.dtype.is_floating_point and a.element_size() == 1 and w.dtype.is_floating_point and w.element_size() == 1
        for k, o in outs.items():
            o = o.double().reshape(ref.shape)
            tol = (K + 8) * u * mag + 1e-30
            fine = (mag < f["fmax"] / 4)
            badm = ((o - ref).abs() > tol) & fine | (~torch.isfinite(o) & fine)
            if badm.any():
                i = badm.nonzero()[0].tolist()
                probs.append(f"route {k}: output{i} = {o[tuple(i)].item()} but the scale-corrected product is {ref[tuple(i)].item()}")
        key = None
        mmdt = torch.float32 if (a.dtype == torch.int8 or w.dtype == torch.int8) else scales.dtype
        unscaled = (a.double().abs().reshape(-1, K) @ w.double().abs().t()).max().item()
        if probs and unscaled > wq.fmt(mmdt)["fmax"] / 2 and all("inf" in p or "nan" in p for p in probs):
            key = ["C07/unscaled-accumulation-overflow"]
        return bool(probs), "\n".join(probs[:4]) or "all routes within accumulation error of the scale-corrected product", key
    if inp["kind"] == "mm-dispatch":
        from optimum.quanto.tensor import QBytesTensor

        qa_t, qb_t = wq.qt(inp["qa"]), wq.qt(inp["qb"])
        da, db = api.dec_tensor(inp["a"]).to(qa_t.dtype), api.dec_tensor(inp["b"]).to(qb_t.dtype)
        sa, sb = api.dec_tensor(inp["sa"]), api.dec_tensor(inp["sb"])
        qa = QBytesTensor(qa_t, inp.get("axa"), da.size(), da.stride(), da, sa)
        qb = QBytesTensor(qb_t, inp.get("axb"), db.size(), db.stride(), db, sb)
        fn = {"mm": torch.mm, "matmul": torch.matmul, "bmm": torch.bmm}[inp["op"]]
        try:
            out = fn(qa, qb).double()
        except Exception as e:  # noqa
            return True, f"{inp['op']} on quantized operands raised {type(e).__name__}: {e}", None
        A_, B_ = qa.dequantize().double(), qb.dequantize().double()
        ref = fn(A_, B_)
        mag = fn(A_.abs(), B_.abs())
        f = wq.fmt(dt)
        ref_dt = fn(qa.dequantize(), qb.dequantize())  # the reference evaluated in the output dtype: finite means representable
        bad = (((out - ref).abs() > (A_.shape[-1] + 8) * 2.0 ** -f["p"] * mag + 1e-30) & (mag < f["fmax"] / 4)) | (~torch.isfinite(out) & torch.isfinite(ref_dt))
        return bool(bad.any()), f"{inp['op']}({inp['qa']}, {inp['qb']}) = {out.tolist()} but the product of the dequantized operands is {ref.tolist()}", None
    if inp["kind"] == "linear-update":
        from optimum.quanto import quantize_activation, quantize_weight

        x, w, w2 = api.dec_tensor(inp["x"]), api.dec_tensor(inp["w"]), api.dec_tensor(inp["w2"])
        bias = api.dec_tensor(inp["bias"]) if inp["bias"] is not None else None
        q_w = wq.qt(inp["wq"])
        xin = quantize_activation(x, wq.qt(inp["act"]), torch.tensor(0.05, dtype=dt)) if inp["act"] else x
        qw = quantize_weight(w, q_w, 0)
        torch.nn.functional.linear(xin, qw, bias)
        qw.copy_(quantize_weight(w2, q_w, 0))
        y3 = torch.nn.functional.linear(xin, qw, bias)
        y4 = torch.nn.functional.linear(xin, quantize_weight(w2, q_w, 0), bias)
        bad = not torch.equal(y3, y4)
        return bad, f"after overwriting the quantized weight in place linear gives {y3.tolist()}, a fresh weight gives {y4.tolist()}", None
    if inp["kind"] == "linear":
        from optimum.quanto import quantize_activation, quantize_weight

        x, w = api.dec_tensor(inp["x"]), api.dec_tensor(inp["w"])
        bias = api.dec_tensor(inp["bias"]) if inp["bias"] is not None else None
        qw = quantize_weight(w, wq.qt(inp["wq"]), 0)
        xin = quantize_activation(x, wq.qt(inp["act"]), torch.tensor(0.05, dtype=dt)) if inp["act"] else x
        before = qw.dequantize().clone()
        y1 = torch.nn.functional.linear(xin, qw, bias)
        y2 = torch.nn.functional.linear(xin, qw, bias)
        xd = xin.dequantize() if inp["act"] else x
        ref = torch.nn.functional.linear(xd.double(), before.double(), bias.double() if bias is not None else None)
        probs = []
        if not torch.equal(y1, y2) or not torch.equal(before, qw.dequantize()):
            probs.append("repeated linear call gives a different result / modifies the weight")
        f = wq.fmt(dt)
        tol = (x.shape[-1] + 12) * 2.0 ** -f["p"] * (xd.double().abs() @ before.double().abs().t() + (bias.double().abs() if bias is not None else 0)) + 1e-30
        if y1.shape != ref.shape or ((y1.double() - ref).abs() > tol).any():
            probs.append(f"linear output {y1.tolist()} vs dequantized product {ref.tolist()}")
        return bool(probs), "\n".join(probs) or "linear ok", None
    raise KeyError(inp["kind"])
