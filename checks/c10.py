"""C10 - state_dict save/load round trips reproduce the quantized model exactly (DESIGN.md section 6, C10)."""
import io
import os
import tempfile

import torch

from . import models, wq
from . import c09
from .c09 import read_q, same

EVIDENCE = dict(
    bounds="all parameters, calibrated scales and the input symbolic; modules Linear(3,2), Linear(160,1) (grouped int2/int4), Conv2d(1,2,2), LayerNorm+Linear, MLP, nested containers; six weight qtypes; activations None/qint8 (+qfloat8 thorough); float32 (+float16/bfloat16 thorough); frozen and unfrozen; targets: default-quantized, same-quantized, same-quantized-and-already-frozen, requantize(); save/load cycles <= 2 (quick) / 3 (thorough); byte-level serializers (pickle, weights_only, safetensors) executed concretely on the seed",
    outside="file-format internals of pickle/safetensors (identity stub inside the symbolic run, executed concretely on the seed); devices other than CPU; architectures beyond the enumerated ones",
    assumptions=[
        "ALG term identity = bit-identical for every value of the symbolic parameters, scales and inputs",
        "serializers are the identity on plain tensors and str (checked concretely on the seed in every case)",
    ],
)
CASE_DEADLINE = dict(quick=300.0, thorough=1500.0)
ALLQ = wq.QT8 + wq.QTB


def cases(tier, seed):
    out = []
    kinds = ["linear", "conv", "linear-wide", "lnorm", "nested"] if tier == "quick" else ["linear", "conv", "linear-wide", "lnorm", "mlp", "nested"]
    acts = [None, "qint8"] if tier == "quick" else [None, "qint8", "qfloat8_e4m3fn"]
    dts = ["float32"] if tier == "quick" else ["float32", "float16", "bfloat16"]
    for dt in dts:
        for kind in kinds:
            for q in ALLQ:
                for a in acts:
                    if kind == "linear-wide" and (q in wq.QT8 or a is not None):
                        continue
                    if kind in ("nested",) and q not in ("qint8", "qint4"):
                        continue
                    for frozen in (True, False):
                        out.append(dict(kind=kind, dtype=dt, qtype=q, act=a, frozen=frozen, cycles=2 if tier == "quick" else 3))
                    if kind in ("linear", "mlp", "nested") and q in ("qint8", "qint4"):
                        # a target that is in eval() mode and has already run a forward pass before the state_dict is loaded
                        out.append(dict(kind=kind, dtype=dt, qtype=q, act=a, frozen=False, cycles=2 if tier == "quick" else 3, warm_target=True))
                        out.append(dict(kind=kind, dtype=dt, qtype=q, act=a, frozen=True, cycles=1, warm_target=True))
                    if a is not None and kind in ("mlp", "nested") and q in ("qint8",):
                        # scales produced by a real Calibration run (not set by hand): what a user's checkpoint contains
                        out.append(dict(kind=kind, dtype=dt, qtype=q, act=a, frozen=True, cycles=1, calibrated=True))
                    if a is not None and q in ("qint8", "qint4") and kind in ("linear", "lnorm", "nested"):
                        # a module whose activations were streamlined away by calibration (activation_qtype None, saved as "none")
                        out.append(dict(kind=kind, dtype=dt, qtype=q, act=a, frozen=True, cycles=1, streamlined=True))
    return out


def sd_types_ok(sd):
    return [k for k, v in sd.items() if type(v) not in (torch.Tensor, str)]


def serializer_roundtrips(sd):
    """byte-level serializers on concrete data: returns list of problems"""
    from optimum.quanto import safe_load, safe_save

    probs = []

    def eq(a, b):
        if set(a) != set(b):
            return f"keys differ: {sorted(set(a) ^ set(b))[:4]}"
        for k in a:
            if isinstance(a[k], str) or isinstance(b[k], str):
                if a[k] != b[k]:
                    return f"{k}: {a[k]!r} != {b[k]!r}"
            elif type(b[k]) is not torch.Tensor or a[k].dtype != b[k].dtype or a[k].shape != b[k].shape or not torch.equal(a[k].view(torch.uint8) if a[k].dtype in (torch.float8_e4m3fn, torch.float8_e5m2) else a[k], b[k].view(torch.uint8) if b[k].dtype in (torch.float8_e4m3fn, torch.float8_e5m2) else b[k]):
                return f"{k}: tensor differs after round trip"
        return None

    sdc = dict(sd)  # exactly what model.state_dict() returned (no cloning: shared storages must survive the serializers too)
    for name, wo in (("pickle", False), ("weights_only", True)):
        try:
            buf = io.BytesIO()
            torch.save(sdc, buf)
            buf.seek(0)
            back = torch.load(buf, weights_only=wo)
            e = eq(sdc, back)
            if e:
                probs.append(f"{name}: {e}")
        except Exception as ex:  # noqa
            probs.append(f"{name}: {type(ex).__name__}: {ex}")
    try:
        with tempfile.TemporaryDirectory() as d:
            p = os.path.join(d, "m.safetensors")
            safe_save(sdc, p)
            back = safe_load(p)
            e = eq(sdc, back)
            if e:
                probs.append(f"safetensors: {e}")
    except Exception as ex:  # noqa
        probs.append(f"safetensors: {type(ex).__name__}: {ex}")
    return probs


def model_state(model, read):
    """comparable description of a quantized model: per module qtypes, weight inner tensors, scales"""
    from optimum.quanto.nn import QModuleMixin
    from optimum.quanto.tensor import QTensor

    st = {}
    for n, mod in model.named_modules():
        if isinstance(mod, QModuleMixin):
            w = mod.weight
            meta = (str(mod.weight_qtype), str(mod.activation_qtype), type(w.data).__name__ if not isinstance(w, QTensor) else type(w).__name__)
            if isinstance(w, QTensor):
                meta += (str(w.qtype), str(w.axis), str(getattr(w, "_group_size", None)), tuple(w.shape), tuple(w.stride()), str(w.dtype))
            st[n] = (meta, read_q(w, read), read(mod.input_scale), read(mod.output_scale), read(mod.bias) if mod.bias is not None else None)
    return st


def compare_states(a, b):
    probs = []
    if set(a) != set(b):
        return [f"quantized modules differ: {sorted(set(a) ^ set(b))}"]
    for n in a:
        if a[n][0] != b[n][0]:
            probs.append(f"{n}: metadata {a[n][0]} != {b[n][0]}")
            continue
        names = ("weight", "input_scale", "output_scale", "bias")
        for nm, x, y in zip(names, a[n][1:], b[n][1:]):
            if (x is None) != (y is None) or (x is not None and not same(x, y)):
                probs.append(f"{n}.{nm} differs after reload")
    return probs


def scenario(kind, dt, qtype, act, frozen, cycles, x, read, sym_hook=None, streamlined=False, warm_target=False, calibrated=False):
    """save -> load into three kinds of target -> compare -> save again; returns list of problems"""
    from optimum.quanto import freeze, quantize, requantize

    q_t = wq.qt(qtype)
    a_t = wq.qt(act) if act else None
    src, _ = models.make(kind, dt)
    quantize(src, weights=q_t, activations=a_t)
    if a_t is not None:
        models.set_scales(src, 0.031, 0.043)
    if calibrated and a_t is not None:
        from optimum.quanto import Calibration

        with torch.no_grad(), Calibration(streamline=False):
            src(x)
            src(x * 1.5)
    if sym_hook and not calibrated:
        sym_hook(src)
    if streamlined:
        from optimum.quanto.nn import QModuleMixin

        first = next(mod for mod in src.modules() if isinstance(mod, QModuleMixin) and mod.activation_qtype is not None)
        first.activation_qtype = None  # the state Calibration(streamline=True) leaves behind
    if frozen:
        freeze(src)
    probs = []

    def out(m_):
        with torch.no_grad():
            y = m_(x)
        return read(y.dequantize() if hasattr(y, "dequantize") else y)

    y_src = out(src)
    st_src = model_state(src, read)
    sd = src.state_dict()
    bad_types = sd_types_ok(sd)
    if bad_types:
        probs.append(f"state_dict values that are neither plain tensors nor str: {bad_types[:4]}")
    cur_sd = sd
    for cyc in range(cycles):
        for target in ("default", "same", "requantize") + (("same-frozen",) if frozen else ()):
            tgt, _ = models.make(kind, dt, seed=99 + cyc)
            try:
                sd_in = dict(cur_sd)
                if target == "default":
                    quantize(tgt, weights=wq.qt("qint8"))
                    if warm_target:
                        tgt.eval()
                        with torch.no_grad():
                            tgt(x)
                    tgt.load_state_dict(sd_in)
                elif target == "same":
                    quantize(tgt, weights=q_t, activations=a_t)
                    if warm_target:
                        tgt.eval()
                        with torch.no_grad():
                            tgt(x)
                    tgt.load_state_dict(sd_in)
                elif target == "same-frozen":
                    # a target that is already frozen (with its own, different weights), e.g. a second checkpoint loaded into a served model
                    quantize(tgt, weights=q_t, activations=a_t)
                    freeze(tgt)
                    tgt.load_state_dict(sd_in)
                else:
                    requantize(tgt, sd_in)
            except Exception as e:  # noqa
                probs.append(f"cycle {cyc} target {target}: load raised {type(e).__name__}: {str(e)[:300]}")
                continue
            # the saved model runs (y_src above): a reloaded model whose state cannot be read or whose forward raises did not round-trip
            try:
                st_t = model_state(tgt, read)
                for p in compare_states(st_src, st_t):
                    probs.append(f"cycle {cyc} target {target}: {p}")
                y_t = out(tgt)
            except (RuntimeError, ValueError, IndexError, TypeError, AssertionError) as e:
                probs.append(f"cycle {cyc} target {target}: the reloaded model cannot be used: {type(e).__name__}: {str(e)[:300]}")
                continue
            if not same(y_src, y_t):
                probs.append(f"cycle {cyc} target {target}: outputs differ from the saved model's")
            sd2 = tgt.state_dict()
            if set(sd2) != set(cur_sd):
                probs.append(f"cycle {cyc} target {target}: re-saved state_dict keys differ: {sorted(set(sd2) ^ set(cur_sd))[:4]}")
            else:
                for k in sd2:
                    if isinstance(sd2[k], str) or isinstance(cur_sd[k], str):
                        if sd2[k] != cur_sd[k]:
                            probs.append(f"cycle {cyc} target {target}: re-saved {k}: {sd2[k]!r} != {cur_sd[k]!r}")
                    elif not same(read(sd2[k]), read(cur_sd[k])):
                        probs.append(f"cycle {cyc} target {target}: re-saved tensor {k} differs")
            if target == "same":
                nxt = sd2
        cur_sd = nxt if "nxt" in dir() else cur_sd
    return probs, sd


def run_case(case, res):
    from symt import api
    from symt.api import Session

    dt = api.DT[case["dtype"]]
    _, x = models.make(case["kind"], dt)
    # byte-level serializers, concretely on the seed
    probs_c, sd = scenario(case["kind"], dt, case["qtype"], case["act"], case["frozen"], 1, x, lambda t: (t.dequantize() if hasattr(t, "dequantize") else t).detach().clone(), None, case.get("streamlined", False), case.get("warm_target", False), case.get("calibrated", False))
    ser = serializer_roundtrips(sd)
    res.side_ok("serializers-identity-on-seed", not ser, "; ".join(ser)[:300])
    with Session(res) as m:
        X = m.symbolic(x, "x")
        cnt = [0]
        bits_ = wq.qt(case["qtype"]).bits
        c09.SYM_EQ[0] = (lambda a, b: api.equal_modulo_bits(m.ctx, a, b, bits_, res)) if bits_ < 8 else None

        def hook(src):
            P = models.symbolic_params(m, src, "p")
            cnt[0] += sum(v.size for v in P.values())
            from optimum.quanto.nn import QModuleMixin

            for n, mod in src.named_modules():
                if isinstance(mod, QModuleMixin) and mod.activation_qtype is not None:
                    m.symbolic(mod.input_scale, f"s.{n}.in")
                    m.symbolic(mod.output_scale, f"s.{n}.out")
                    cnt[0] += 2

        probs, _ = scenario(case["kind"], dt, case["qtype"], case["act"], case["frozen"], case["cycles"], x, lambda t: m.read(t) if type(t) in (torch.Tensor, torch.nn.Parameter) else m.read(t.dequantize()), hook, case.get("streamlined", False), case.get("warm_target", False), case.get("calibrated", False))
    res.query("save-load-reproduces-model", "ALG", "unsat" if not probs else "sat", 0.0, nvars=x.numel() + cnt[0], sub=f"{len(probs)} differences")
    if probs or ser:
        res.side[-1]["replayed"] = True
        res.candidate("roundtrip", "ALG", dict(kind=case["kind"], dtype=case["dtype"], qtype=case["qtype"], act=case["act"], frozen=case["frozen"], cycles=case["cycles"], streamlined=case.get("streamlined", False), warm_target=case.get("warm_target", False), calibrated=case.get("calibrated", False), x=api.enc_tensor(x), note=(probs + ser)[:4]), exact=False)


def replay(rec):
    from symt import api

    inp = rec["inputs"]
    dt = api.DT[inp["dtype"]]
    x = api.dec_tensor(inp["x"])
    probs, sd = scenario(inp["kind"], dt, inp["qtype"], inp["act"], inp["frozen"], inp["cycles"], x, lambda t: (t.dequantize() if hasattr(t, "dequantize") else t).detach().clone(), None, inp.get("streamlined", False), inp.get("warm_target", False), inp.get("calibrated", False))
    probs += serializer_roundtrips(sd)
    keys = set()
    lowbit_grouped_unfrozen = (not inp["frozen"]) and wq.qt(inp["qtype"]).bits < 8 and inp["kind"] == "linear-wide"
    for p in probs:
        if ("target requantize" in p or "target default" in p) and inp["act"] is not None and inp["kind"] in ("lnorm",):
            keys.add("C10/default-target-lacks-activation-only-modules")
        elif ("target requantize" in p or "target default" in p) and lowbit_grouped_unfrozen:
            keys.add("C10/unfrozen-lowbit-group-size-not-restored")
        else:
            keys.add(None)
    key = None if (not probs or None in keys) else sorted(keys)
    return bool(probs), "\n".join(probs[:6]) or "round trip reproduces the model", key
