"""C12 - Calibration scales are the configured-momentum average of batch absmax ranges (DESIGN.md section 6, C12)."""
from fractions import Fraction

import torch

from . import wq

EVIDENCE = dict(
    bounds="batch sequences of length N in 1..2 (quick) / 1..3 (thorough), each batch 1x2 (Linear) symbolic finite elements; momentum symbolic in [0,1) (0-dim tensor) and the concrete Python floats 0, 0.5, 0.9, 0.99; activations qint8 (quick) + qfloat8 types (thorough); models: one QLinear, a chain QLinear->QLinear (second fed a quantized tensor), QLinear->ReLU, Conv2d and LayerNorm->Linear (thorough); streamline off, and on for the chain; both outcomes of every `scale == 1` sentinel branch explored by solver-generated seeds",
    outside="N beyond 3 (the recurrence is first-order: N = 3 exercises initialisation, update and update of an updated value); module weights are concrete (the law does not mention them); CUDA/MPS",
    assumptions=[
        "RERR standard model of float32 arithmetic; tolerance 8u relative so that an algebraically equivalent refactoring of the EMA expression does not alarm",
        "the raw pre-quantization output of batch t is what module.qforward(input) returns right after the batch (same state); its element terms are cut into free variables for the output-scale law",
    ],
)
CASE_DEADLINE = dict(quick=400.0, thorough=1500.0)


def cases(tier, seed):
    out = []
    acts = ["qint8"] if tier == "quick" else wq.QT8
    moms = ["sym", 0.0, 0.5] if tier == "quick" else ["sym", 0.0, 0.5, 0.9, 0.99]
    Ns = [1, 2] if tier == "quick" else [1, 2, 3]
    models = ["single", "chain"] if tier == "quick" else ["single", "chain", "chain-streamline", "relu", "conv", "lnorm"]
    for a in acts:
        for mo in models:
            for mom in moms:
                for N in Ns:
                    if tier == "quick" and mo == "chain" and (N == 1 or mom == 0.0):
                        continue  # the chain is the slowest case: quick keeps N=2 with symbolic momentum and 0.5
                    out.append(dict(kind="ema", act=a, model=mo, momentum=mom, N=N))
                    if N >= 2 and mo == "single" and mom in ("sym", 0.5):
                        # the same history split over two successive Calibration contexts must give the same averages
                        out.append(dict(kind="ema", act=a, model=mo, momentum=mom, N=N, split=1))
                        if mom == 0.5:
                            # ... also when the very same Calibration object is used for both contexts
                            out.append(dict(kind="ema", act=a, model=mo, momentum=mom, N=N, split=1, reuse=True))
    if tier == "quick":
        # a quantized LayerNorm fed a float input (its qforward does not quantize the input itself)
        out.append(dict(kind="ema", act="qint8", model="lnorm", momentum=0.5, N=1))
    return out


def build(model_kind, act_name):
    from optimum.quanto import quantize

    torch.manual_seed(3)
    if model_kind in ("single",):
        model = torch.nn.Sequential(torch.nn.Linear(2, 2))
    elif model_kind in ("chain", "chain-streamline"):
        model = torch.nn.Sequential(torch.nn.Linear(2, 2), torch.nn.Linear(2, 1))
    elif model_kind == "relu":
        model = torch.nn.Sequential(torch.nn.Linear(2, 2), torch.nn.ReLU())
    elif model_kind == "conv":
        model = torch.nn.Sequential(torch.nn.Conv2d(1, 1, 1))
    elif model_kind == "lnorm":
        model = torch.nn.Sequential(torch.nn.LayerNorm(2), torch.nn.Linear(2, 1))
    quantize(model, weights=wq.qt("qint8"), activations=wq.qt(act_name))
    return model


def batch_shape(model_kind):
    return (1, 1, 1, 2) if model_kind == "conv" else (1, 2)


def qmods(model):
    from optimum.quanto.nn import QModuleMixin

    return [(n, mod) for n, mod in model.named_modules() if isinstance(mod, QModuleMixin) and mod.activation_qtype is not None]


def reference(model_kind, act_name, batches, momentum, split=None, reuse=False):
    """plain-quanto run + float64 reference recurrence; returns list of (name, which, got, expected, history)"""
    from optimum.quanto import Calibration
    from optimum.quanto.tensor import QBytesTensor

    model = build(model_kind, act_name)
    qmax = float(torch.finfo(wq.qt(act_name).dtype).max) if wq.qt(act_name).is_floating_point else 127.0
    mods = qmods(model)
    ref = {(n, w): None for n, _ in mods for w in ("in", "out")}
    hist = {(n, w): [] for n, _ in mods for w in ("in", "out")}
    actual = {(n, w): [] for n, _ in mods for w in ("in", "out")}
    amax = {}
    adopted = {}
    import contextlib

    stack = contextlib.ExitStack()
    stack.enter_context(torch.no_grad())
    ctxs = contextlib.ExitStack()
    cal0 = Calibration(momentum=momentum, streamline=(model_kind == "chain-streamline"))
    ctxs.enter_context(cal0)
    with stack:
        for bi, x in enumerate(batches):
            if split is not None and bi == split:
                ctxs.close()
                ctxs = contextlib.ExitStack()
                ctxs.enter_context(cal0 if reuse else Calibration(momentum=momentum, streamline=(model_kind == "chain-streamline")))
            model(x)
            for n_, mod_ in mods:
                actual[(n_, "in")].append(float(mod_.input_scale))
                actual[(n_, "out")].append(float(mod_.output_scale))
            cur = x
            for n, mod in model.named_children():
                if any(mod is mm for _, mm in mods) and mod.activation_qtype is not None:
                    if isinstance(cur, QBytesTensor):
                        adopted[n] = float(cur._scale.max())
                        a_in = None
                    else:
                        a_in = float(cur.double().abs().max()) / qmax
                    raw = mod.qforward(cur)
                    raw = raw.dequantize() if isinstance(raw, QBytesTensor) else raw
                    a_out = float(raw.double().abs().max()) / qmax
                    for w, a in (("in", a_in), ("out", a_out)):
                        if a is None:
                            ref[(n, w)] = adopted[n]
                        else:
                            ref[(n, w)] = a if ref[(n, w)] is None else float(momentum) * ref[(n, w)] + (1 - float(momentum)) * a
                            amax[(n, w)] = max(amax.get((n, w), 0.0), a)
                        hist[(n, w)].append(ref[(n, w)])
                    cur = mod.forward(cur)
                else:
                    cur = mod(cur) if not any(mod is mm for _, mm in qmods(model)) else mod.forward(cur)
        ctxs.close()
    out = []
    for n, mod in mods:
        if mod.activation_qtype is None:
            continue
        out.append((n, "in", float(mod.input_scale), ref[(n, "in")], hist[(n, "in")], actual[(n, "in")], amax.get((n, "in"), 0.0)))
        out.append((n, "out", float(mod.output_scale), ref[(n, "out")], hist[(n, "out")], actual[(n, "out")], amax.get((n, "out"), 0.0)))
    return out


def run_case(case, res):
    import numpy as np
    import z3

    from symt import api, rerr
    from symt import terms as tm
    from symt.api import Session
    from symt.rerr import rv, zabs

    from optimum.quanto import Calibration
    from optimum.quanto.tensor import QBytesTensor

    act = wq.qt(case["act"])
    qmax = float(torch.finfo(act.dtype).max) if act.is_floating_point else 127.0
    N = case["N"]
    kind = case["model"]
    f = tm.FMT[torch.float32]
    u = Fraction(1, 2 ** f["p"])
    eta = Fraction(2) ** (f["emin"] - f["p"])
    shape = batch_shape(kind)

    def seeds0():
        torch.manual_seed(11)
        return [(torch.randn(shape) * (t + 1.5)) for t in range(N)], torch.tensor(0.8)

    def execute(xs, mom_t):
        """one symbolic run; returns mode and the collected terms"""
        model = build(kind, case["act"])
        info = {}
        with Session(res) as m:
            X = [m.symbolic(x, f"x{t}") for t, x in enumerate(xs)]
            if case["momentum"] == "sym":
                Mv = m.symbolic(mom_t, "m")
                mom = mom_t
            else:
                Mv, mom = None, case["momentum"]
            raws, ins = {}, {}
            import contextlib

            with torch.no_grad(), contextlib.ExitStack() as ctxs:
                cal0 = Calibration(momentum=mom, streamline=(kind == "chain-streamline"))
                ctxs.enter_context(cal0)
                for t, x in enumerate(xs):
                    if case.get("split") is not None and t == case["split"]:
                        ctxs.close()  # leave the first calibration context, enter a second one (a new object, or the same one again)
                        ctxs.enter_context(cal0 if case.get("reuse") else Calibration(momentum=mom, streamline=(kind == "chain-streamline")))
                    model(x)
                    cur = x
                    for n, mod in model.named_children():
                        if any(mod is mm for _, mm in qmods(model)):
                            if isinstance(cur, QBytesTensor):
                                ins.setdefault(n, []).append(("adopt", m.read(cur._scale).reshape(-1)))
                            else:
                                ins.setdefault(n, []).append(("float", m.read(cur).reshape(-1)))
                            raw = mod.qforward(cur)
                            raw = raw.dequantize() if isinstance(raw, QBytesTensor) else raw
                            raws.setdefault(n, []).append(m.read(raw).reshape(-1))
                            cur = mod.forward(cur)
                        else:
                            cur = mod(cur)
            scales = {n: (m.read(mod.input_scale).reshape(-1)[0], m.read(mod.output_scale).reshape(-1)[0]) for n, mod in qmods(model)}
        info.update(X=X, M=Mv, raws=raws, ins=ins, scales=scales, mom=mom, active=[n for n, _ in qmods(model)])
        return m, info

    def enc(xs, momv):
        return dict(batches=[api.enc_tensor(x) for x in xs], momentum=float(momv), model=kind, act=case["act"], split=case.get("split"), reuse=bool(case.get("reuse")))

    xs, mom_t = seeds0()
    queue = [(xs, mom_t)]
    seen = set()
    npaths = 0
    while queue and npaths < 6:
        xs, mom_t = queue.pop(0)
        m, info = execute(xs, mom_t)
        sig = tuple(o for _, o, _ in m.path)
        if sig in seen:
            continue
        seen.add(sig)
        npaths += 1
        ctx = m.ctx
        allX = [t for X in info["X"] for t in X.reshape(-1)]

        def ema_ref(r, a_list, mz):
            ref = a_list[0]
            for a in a_list[1:]:
                ref = mz * ref + (1 - mz) * a
            return ref

        def absmax_ref(vals):
            acc = zabs(vals[0])
            for v in vals[1:]:
                av = zabs(v)
                acc = z3.If(av > acc, av, acc)
            return acc / rv(qmax)

        for n in info["active"]:
            s_in, s_out = info["scales"][n]
            for which, s_term in (("in", s_in), ("out", s_out)):
                # cut the raw outputs (output law) so that the law is checked for arbitrary raw values
                cutnodes = []
                if which == "out":
                    for t in range(N):
                        cutnodes += [x for x in info["raws"][n][t] if x.op not in ("const", "var")]
                (s_cut,), cmap, _ = api.cut(ctx, [s_term], cutnodes, f"raw_{n}_")
                r = rerr.Rerr(ctx)
                sr = r.tr(s_cut)
                mz = r.tr(info["M"].reshape(-1)[0]) if info["M"] is not None else rv(Fraction(float(info["mom"])))
                pre = list(r.cons)
                if info["M"] is not None:
                    pre += [mz >= 0, mz < 1]
                # path constraints of this run
                for c, o, k in m.path:
                    (cc,), _, _ = api.cut(ctx, [c], [])
                    pc = r.tr(api.subst(ctx, [c], {k_: v_ for k_, v_ in cmap.items()})[0])
                    pre.append(pc if o else z3.Not(pc))
                if which == "in" and info["ins"][n][0][0] == "adopt":
                    # module fed an already quantized tensor: adopts that tensor's scale
                    exp_t = info["ins"][n][-1][1][0]
                    if s_term is exp_t:
                        res.query("adopts-scale-of-quantized-input", "ALG", "unsat", 0.0, sub=f"{n} N={N} path={sig} (identical terms)")
                        continue
                    # not the same term: the seed is replayed at once (structural defects do not depend on the values)
                    res.candidate("ema", "ALG", enc(xs, float(mom_t) if info["M"] is not None else info["mom"]), note="input scale of a module fed a quantized tensor is not that tensor's scale term")
                    exp = r.tr(exp_t)
                    for gi, g in enumerate((sr - exp, exp - sr)):
                        v, secs, model_ = api.solve(pre + [g > rv(4 * u) * zabs(exp) + rv(eta)], 30)
                        res.query("adopts-scale-of-quantized-input", "RERR", v, secs, sub=f"{n} N={N} path={sig} side{gi}")
                        if v == "sat":
                            res.candidate("ema", "RERR", enc([api.tensor_from_values(api.real_model_values(r, model_, X, torch.float32), shape, torch.float32) for X in info["X"]], api.real_model_values(r, model_, info["M"], torch.float32)[0] if info["M"] is not None else info["mom"]))
                    continue
                a_list = []
                for t in range(N):
                    if which == "in":
                        vals = [r.tr(x) for x in info["ins"][n][t][1]]
                    else:
                        vals = [r.tr(cmap[x.uid]) if x.uid in cmap else r.tr(x) for x in info["raws"][n][t]]
                    a_list.append(absmax_ref(vals))
                ref = ema_ref(r, a_list, mz)
                # float rounding relative to the operands of the average (an algebraically equivalent form such as
                # s + (new - s)(1 - m) rounds relative to the larger of s and new, not to the result)
                tol = rv(8 * u) * sum(a_list) + rv(4 * eta)
                for gi, g in enumerate((sr - ref, ref - sr)):
                    v, secs, model_ = api.solve(pre + [g > tol], 90)
                    res.query("scale-is-momentum-average", "RERR", v, secs, sub=f"{n}.{which} N={N} m={case['momentum']} path={sig} side{gi}")
                    if v == "sat":
                        # concretise: inputs from the model (raw cuts are internal; the concrete replay recomputes them)
                        xsv = [api.tensor_from_values(api.real_model_values(r, model_, X, torch.float32), shape, torch.float32) for X in info["X"]]
                        mv = api.real_model_values(r, model_, info["M"], torch.float32)[0] if info["M"] is not None else info["mom"]
                        # on a path that took a sentinel branch (a running scale equal to 1) the law is known to fail
                        tag = "region-witness:scale-one-sentinel" if any(o for _, o, k_ in m.path if k_ == "branch") else "ema"
                        res.candidate(tag, "RERR", enc(xsv, mv))
                        res.candidate(tag, "RERR", enc(xs, float(mom_t) if info["M"] is not None else info["mom"]), note="seed as second witness")
        # explore the other side of every sentinel branch of this run
        for i, (c, o, k) in enumerate(m.path):
            if k != "branch":
                continue
            # seeds for the other side are solved in exact arithmetic (u = eta = 0): such solutions (e.g. absmax = qmax)
            # are typically exact in floating point too; the re-execution decides whether the branch was really taken
            r = rerr.Rerr(ctx, ideal=True)
            pre = list(r.cons)
            if info["M"] is not None:
                mz = r.tr(info["M"].reshape(-1)[0])
                pre += [mz >= 0, mz < 1]
            for c2, o2, _ in m.path[:i]:
                pc = r.tr(c2)
                pre.append(pc if o2 else z3.Not(pc))
            pc = r.tr(c)
            v, secs, model_ = api.solve(pre + [z3.Not(pc) if o else pc], 60)
            res.query("branch-flip", "RERR", "unsat" if v in ("unsat", "sat") else v, secs, sub=f"branch {i} of path {sig}: other side {'feasible' if v == 'sat' else 'infeasible' if v == 'unsat' else 'unknown'}", symbolic=True)
            if v == "sat":
                xsv = [api.tensor_from_values(api.real_model_values(r, model_, X, torch.float32), shape, torch.float32) for X in info["X"]]
                mv = torch.tensor(api.real_model_values(r, model_, info["M"], torch.float32)[0]) if info["M"] is not None else mom_t
                queue.append((xsv, mv))
                res.candidate("region-witness:scale-one-sentinel", "RERR", enc(xsv, float(mv) if info["M"] is not None else info["mom"]))
    res.notes.append(f"paths explored: {npaths}, frontier {'empty' if not queue else 'not exhausted'}")


def replay(rec):
    from symt import api

    inp = rec["inputs"]
    batches = [api.dec_tensor(b) for b in inp["batches"]]
    mom = inp["momentum"]
    rows = reference(inp["model"], inp["act"], batches, mom, inp.get("split"), bool(inp.get("reuse")))
    rows09 = reference(inp["model"], inp["act"], batches, 0.9, inp.get("split"), bool(inp.get("reuse"))) if mom != 0.9 else rows
    bad, keys = [], set()
    for (n, w, got, exp, hist, act_, amx), (_, _, got9, exp9, _, _, _) in zip(rows, rows09):
        if exp is None:
            continue
        tol = 1e-5 * max(abs(exp), amx) + 4 * 2.0**-149
        if abs(got - exp) > tol:
            bad.append(f"{n}.{w}_scale = {got!r}, momentum-{mom} average of the batch ranges is {exp!r} (history {hist})")
            if any(h == 1.0 for h in list(hist[:-1]) + list(act_[:-1])):
                keys.add("C12/scale-one-sentinel")
            elif w == "in" and abs(got - exp9) <= 1e-5 * abs(exp9):
                keys.add("C12/input-momentum-ignored")
            else:
                keys.add(None)
    key = None if (not bad or None in keys) else sorted(keys)
    return bool(bad), "\n".join(bad) or "calibrated scales obey the EMA law", key
