"""C14 - Configurations are either rejected with ValueError or fully honoured (DESIGN.md section 6, C14)."""
import ast
import itertools
import textwrap

import torch

from . import qops, wq

EVIDENCE = dict(
    bounds="accept/reject totality: axis a symbolic integer over ALL integers and group_size a symbolic integer in 1..2*numel (or None), explored path by path with solver-generated seeds until the closing query (domain and not any explored path) is unsat; entry points quantize_weight (six qtypes x optimizer None/right family/wrong family), AffineQuantizer, SymmetricQuantizer (scale shapes: scalar, per-axis right, per-axis wrong rank, wrong axis), quantize_activation (scalar / non-scalar scale); ranks 1..4 (shapes (6,), (4,6), (2,3,4), (2,1,3,2)); automatic group size: CrossHair over every in_features >= 1 (unbounded) on the AST slice of QModuleMixin.__init__, plus real QLinear/QConv2d modules built and run at boundary sizes",
    outside="group_size <= 0 (outside the property's quantifier; ZeroDivisionError / RuntimeError there is reported in DESIGN.md as an observation); running every in_features up to 8192 (the divisibility post-condition is decided for all integers, the run is sampled at boundaries)",
    assumptions=["SymInt concolic proxy: Python-level control flow on axis/group_size is followed exactly; values entering C APIs are concretised and become path conditions"],
)
CASE_DEADLINE = dict(quick=400.0, thorough=1500.0)
ALLQ = wq.QT8 + wq.QTB
SHAPES = [(6,), (4, 6), (2, 3, 4), (2, 1, 3, 2)]


def cases(tier, seed):
    out = []
    for q in ALLQ:
        for opt in ("none", "right", "wrong"):
            out.append(dict(kind="totality", entry="quantize_weight", qtype=q, optimizer=opt))
    for q in ALLQ:
        out.append(dict(kind="totality", entry="quantizer", qtype=q))
    out.append(dict(kind="totality", entry="quantize_activation"))
    out.append(dict(kind="autogroup-crosshair", deadline=500.0))
    for q in ALLQ:
        out.append(dict(kind="autogroup-run", qtype=q))
    return out


def check_returned(q, qtype, axis, gs, shape):
    """an accepted configuration must be honoured exactly"""
    probs = []
    if q.qtype != qtype:
        probs.append(f"qtype {q.qtype} != requested {qtype}")
    if tuple(q.shape) != tuple(shape):
        probs.append(f"shape {tuple(q.shape)}")
    ax = q.axis
    ax = ax.val if hasattr(ax, "val") else ax
    want_axis = axis
    if qtype.bits == 8 and axis is not None:
        if shape[axis] == 1:
            want_axis = None
        elif axis % len(shape) == len(shape) - 1:
            want_axis = -1
    if ax != want_axis:
        probs.append(f"axis {ax} != requested {want_axis}")
    if qtype.bits < 8:
        g = q._group_size
        g = g.val if hasattr(g, "val") else g
        if g != gs:
            probs.append(f"group size {g} != requested {gs}")
        # one scale / zero-point per (kept-axis index, group): the grouping must not straddle axis indices
        if len(shape) > 1 and axis in (0, -1):
            per = 1
            for d_, n_ in enumerate(shape):
                if d_ != axis % len(shape):
                    per *= n_
            want = shape[axis] * (per // gs if gs else 1)
            if q._scale.numel() != want or q._zeropoint.numel() != want:
                probs.append(f"{q._scale.numel()} scales for {want} (axis index, group) pairs")
    elif gs is not None:
        probs.append(f"group size {gs} was requested for an 8-bit qtype and silently ignored")
    probs += qops.metadata_problems(q)
    return probs


def call_entry(entry, qtype, optimizer, shape, axis, gs, scale_kind="right"):
    """returns (outcome, detail) with outcome in ok / ValueError / OTHER"""
    from optimum.quanto import AbsmaxOptimizer, MaxOptimizer, quantize_activation, quantize_weight
    from optimum.quanto.tensor.quantizers import AffineQuantizer, SymmetricQuantizer

    torch.manual_seed(1)
    t = torch.randn(shape)
    q_t = wq.qt(qtype) if qtype else None
    axv = axis.val if hasattr(axis, "val") else axis
    gsv = gs.val if hasattr(gs, "val") else gs
    try:
        if entry == "quantize_weight":
            opt = None
            if optimizer != "none":
                sym = q_t.bits == 8
                opt = (AbsmaxOptimizer() if sym else MaxOptimizer()) if optimizer == "right" else (MaxOptimizer() if sym else AbsmaxOptimizer())
            q = quantize_weight(t, q_t, axis, gs, opt)
        elif entry == "quantizer":
            if q_t.bits == 8:
                if scale_kind == "scalar":
                    scale = torch.tensor(0.05)
                elif scale_kind == "right":
                    s = [1] * len(shape)
                    if axv in (0, -1, len(shape) - 1) and len(shape) > 1:
                        s[axv] = shape[axv]
                    scale = torch.full(s, 0.05)
                elif scale_kind == "wrong-rank":
                    scale = torch.full((shape[0],), 0.05)
                elif scale_kind == "one-by-one-none":
                    scale = torch.full((1,) * (len(shape) + 1), 0.05)
                    axis = None
                else:  # two axes at once
                    scale = torch.full(tuple(shape), 0.05)
                q = SymmetricQuantizer.apply(t, q_t, axis, scale)
            else:
                from optimum.quanto.tensor.qbits import group as grp

                base = t
                n_groups = None
                # scale/zero-point shaped for the requested grouping when it is valid; otherwise a per-axis one
                try:
                    sc, zp = MaxOptimizer()(t, q_t.bits, axv if axv in (0, -1) else 0, gsv)
                except Exception:
                    sc, zp = MaxOptimizer()(t, q_t.bits, 0, None)
                q = AffineQuantizer.apply(t, q_t, axis, gs, sc, zp)
        else:
            scale = {"scalar": torch.tensor(0.05), "one-element": torch.full((1,), 0.05), "one-by-one": torch.full((1, 1), 0.05), "one-by-one-by-one": torch.full((1, 1, 1), 0.05)}.get(scale_kind)
            if scale is None:
                scale = torch.full((shape[-1],), 0.05)
            q = quantize_activation(t, q_t, scale)
            axv, gsv = None, None
    except ValueError as e:
        return "ValueError", str(e)[:80]
    except Exception as e:  # noqa
        return "OTHER", f"{type(e).__name__}: {str(e)[:120]}"
    probs = check_returned(q, q_t, axv, gsv, shape)
    if probs:
        return "NOT-HONOURED", "; ".join(probs[:3])
    return "ok", ""


def group_size_slice():
    """function source sliced from the AST of QModuleMixin.__init__: the automatic group-size computation"""
    from symt import xhair

    src, node, full = xhair.source_of("optimum/quanto/nn/qmodule.py", "QModuleMixin.__init__")
    blocks = [n for n in ast.walk(node) if isinstance(n, ast.If) and "weight_qtype" in ast.unparse(n.test) and "qint2" in ast.unparse(n.test)]
    if len(blocks) != 1:
        raise RuntimeError(f"automatic group size block not found ({len(blocks)} candidates)")
    body = []

    class Tr(ast.NodeTransformer):
        def visit_Assign(self, n):
            tgt = ast.unparse(n.targets[0])
            if tgt in ("out_features", "in_features"):
                return None
            if tgt == "self.weight_group_size":
                return ast.copy_location(ast.Assign(targets=[ast.Name(id="result", ctx=ast.Store())], value=n.value), n)
            return self.generic_visit(n)

    for st in blocks[0].body:
        new = Tr().visit(st)
        if new is not None:
            body.append(ast.fix_missing_locations(new))
    text = "\n".join(ast.unparse(b) for b in body)
    return text


XH_TEMPLATE = '''
from typing import Optional

def group_size_for(in_features: int) -> Optional[int]:
    result = None
{body}
    return result

def _post(in_features: int) -> Optional[int]:
    """
    pre: in_features >= 1
    post: _ is None or (_ in (128, 96, 64, 32) and in_features % _ == 0)
    """
    return group_size_for(in_features)

def _none_only_when_no_candidate(in_features: int) -> bool:
    """
    pre: in_features > 128
    post: _
    """
    r = group_size_for(in_features)
    return (r is not None) == (in_features % 128 == 0 or in_features % 96 == 0 or in_features % 64 == 0 or in_features % 32 == 0)
'''


def run_case(case, res):
    import z3

    from symt import api, symint, xhair

    if case["kind"] == "totality":
        entry = case["entry"]
        for shape in SHAPES:
            numel = int(torch.tensor(shape).prod())
            variants = [("right",)]
            if entry == "quantizer" and wq.qt(case["qtype"]).bits == 8:
                variants = [("scalar",), ("right",), ("wrong-rank",), ("all-axes",), ("one-by-one-none",)]
            if entry == "quantize_activation":
                variants = [("scalar",), ("one-element",), ("one-by-one",), ("one-by-one-by-one",), ("vector",)]
            for (scale_kind,) in variants:
                no_gs = entry == "quantize_activation" or (entry == "quantizer" and wq.qt(case["qtype"]).bits == 8)  # these take no group size
                for gs_mode in (("none",) if no_gs else ("none", "sym")):
                    qtypes = [case.get("qtype")] if entry != "quantize_activation" else wq.QT8
                    for qn in qtypes:
                        def run(tr, s):
                            return call_entry(entry, qn, case.get("optimizer", "none"), shape, s["axis"] if entry != "quantize_activation" else None, s["gs"] if gs_mode == "sym" else None, scale_kind)

                        names = ["axis"] + (["gs"] if gs_mode == "sym" else [])
                        dom = (lambda z: [z["gs"] >= 1, z["gs"] <= 2 * numel]) if gs_mode == "sym" else (lambda z: [])
                        seeds = [dict(axis=0, gs=1)] if gs_mode == "sym" else [dict(axis=0)]
                        results, closed, rest = symint.explore(run, names, dom, seeds, max_paths=120)
                        cfg = f"{entry} {qn} opt={case.get('optimizer')} shape={shape} scale={scale_kind} group_size={gs_mode}"
                        bad = [(v, o) for v, o, p in results if o[0] in ("OTHER", "NOT-HONOURED")]
                        res.query("every-path-rejects-with-ValueError-or-honours", "SymInt", "unsat" if not bad else "sat", 0.0, sub=f"{cfg}: {len(results)} paths, accepted {sorted({tuple(v.values()) for v, o, p in results if o[0] == 'ok'})[:8]}", nvars=len(names))
                        res.query("path-conditions-cover-the-domain", "LIA", "unsat" if closed == "unsat" else "unknown", 0.0, sub=cfg + (f" uncovered e.g. {rest}" if rest else ""), nvars=len(names))
                        res.paths += len(results)
                        for v, o in bad[:2]:
                            res.candidate("totality", "SymInt", dict(kind="totality", entry=entry, qtype=qn, optimizer=case.get("optimizer", "none"), shape=list(shape), axis=v["axis"], gs=v.get("gs"), scale_kind=scale_kind), note=str(o), exact=True)
        return

    if case["kind"] == "autogroup-crosshair":
        try:
            body = group_size_slice()
        except Exception as e:  # noqa
            res.query("automatic-group-size-divides", "CrossHair", "unknown", 0.0, note=f"slice failed: {e}")
            return
        mod = XH_TEMPLATE.format(body=textwrap.indent(body, "    "))
        out, secs, raw = xhair.run(mod, "groupsize", 60, 450)
        if not out:
            res.query("automatic-group-size-divides", "CrossHair", "unknown", secs, note=raw[-300:])
        for line, v, msg in out:
            res.query("automatic-group-size-divides", "CrossHair", v, secs / max(1, len(out)), sub=msg[:150])
            if v == "sat":
                import re

                mm = re.search(r"\((\d+)\)", msg)
                n = int(mm.group(1)) if mm else 130
                res.candidate("autogroup", "CrossHair", dict(kind="autogroup", in_features=n, qtype="qint4"), exact=False)
        return

    if case["kind"] == "autogroup-run":
        for n in (1, 31, 32, 33, 96, 128, 129, 130, 160, 192, 200, 256):
            outcome = autogroup_problem(n, case["qtype"], "linear")
            res.side_ok("every-linear-shape-quantizes-and-runs", outcome is None, f"in_features={n} {case['qtype']}: {outcome}")
            if outcome:
                res.side[-1]["replayed"] = True
                res.candidate("autogroup", "side", dict(kind="autogroup", in_features=n, qtype=case["qtype"]), exact=True)
        for cin, k, groups in ((16, 3, 1), (8, 5, 1), (32, 2, 2), (3, 7, 1)):
            outcome = autogroup_problem((cin, k, groups), case["qtype"], "conv")
            res.side_ok("every-conv-shape-quantizes-and-runs", outcome is None, f"conv cin={cin} k={k} groups={groups} {case['qtype']}: {outcome}")
            if outcome:
                res.side[-1]["replayed"] = True
                res.candidate("autogroup", "side", dict(kind="autogroup-conv", cin=cin, k=k, groups=groups, qtype=case["qtype"]), exact=True)
        return
    raise KeyError(case["kind"])


def autogroup_problem(n, qtype, module):
    from optimum.quanto import freeze, quantize

    q_t = wq.qt(qtype)
    torch.manual_seed(2)
    if module == "linear":
        model = torch.nn.Sequential(torch.nn.Linear(n, 2))
        x = torch.randn(1, n)
        per_out = n
    else:
        cin, k, groups = n
        model = torch.nn.Sequential(torch.nn.Conv2d(cin, 2 * groups, k, groups=groups))
        x = torch.randn(1, cin, k, k)
        per_out = cin // groups * k * k
    try:
        quantize(model, weights=q_t)
        gs = model[0].weight_group_size
        if gs is not None and (q_t.bits == 8 or per_out % gs != 0 or gs not in (128, 96, 64, 32)):
            return f"weight_group_size={gs} for {per_out} elements per output"
        with torch.no_grad():
            y = model(x)
        freeze(model)
        with torch.no_grad():
            y2 = model(x)
        if not torch.isfinite(y).all() and torch.isfinite(x).all() and False:
            return "non-finite output"
        if y.shape != y2.shape:
            return "shape changed after freeze"
    except Exception as e:  # noqa
        return f"{type(e).__name__}: {str(e)[:120]}"
    return None


def replay(rec):
    inp = rec["inputs"]
    if inp["kind"] == "totality":
        o, d = call_entry(inp["entry"], inp["qtype"], inp["optimizer"], tuple(inp["shape"]), inp["axis"], inp["gs"], inp["scale_kind"])
        bad = o in ("OTHER", "NOT-HONOURED")
        return bad, f"{inp['entry']}({inp['qtype']}, axis={inp['axis']}, group_size={inp['gs']}, optimizer={inp['optimizer']}, shape={inp['shape']}, scale={inp['scale_kind']}) -> {o}: {d}", None
    if inp["kind"] == "autogroup":
        p = autogroup_problem(inp["in_features"], inp["qtype"], "linear")
        return bool(p), f"Linear(in_features={inp['in_features']}) as {inp['qtype']}: {p}", None
    if inp["kind"] == "autogroup-conv":
        p = autogroup_problem((inp["cin"], inp["k"], inp["groups"]), inp["qtype"], "conv")
        return bool(p), f"Conv2d: {p}", None
    raise KeyError(inp["kind"])
