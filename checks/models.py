"""Tiny models shared by the module-level checks (C08-C11, C13)."""
import torch


class Nested(torch.nn.Module):
    def __init__(self, dtype):
        super().__init__()
        self.stem = torch.nn.Linear(3, 2, dtype=dtype)
        self.block = torch.nn.Sequential(torch.nn.ReLU(), torch.nn.Linear(2, 2, dtype=dtype))
        self.heads = torch.nn.ModuleDict({"a": torch.nn.Linear(2, 1, dtype=dtype)})

    def forward(self, x):
        return self.heads["a"](self.block(self.stem(x)))


def make(kind, dtype=torch.float32, bias=True, seed=5):
    torch.manual_seed(seed)
    if kind == "linear":
        m = torch.nn.Sequential(torch.nn.Linear(3, 2, bias=bias, dtype=dtype))
        x = torch.randn(2, 3)
    elif kind == "linear-wide":  # in_features > 128 and divisible by 32: automatic group size
        m = torch.nn.Sequential(torch.nn.Linear(160, 1, bias=bias, dtype=dtype))
        x = torch.randn(1, 160)
    elif kind == "conv":
        m = torch.nn.Sequential(torch.nn.Conv2d(1, 2, 2, bias=bias, dtype=dtype))
        x = torch.randn(1, 1, 2, 3)
    elif kind == "lnorm":
        m = torch.nn.Sequential(torch.nn.LayerNorm(3, dtype=dtype), torch.nn.Linear(3, 2, bias=bias, dtype=dtype))
        x = torch.randn(2, 3)
    elif kind == "mlp":
        m = torch.nn.Sequential(torch.nn.Linear(3, 2, dtype=dtype), torch.nn.ReLU(), torch.nn.Linear(2, 2, dtype=dtype))
        x = torch.randn(2, 3)
    elif kind == "nested":
        m = Nested(dtype)
        x = torch.randn(2, 3)
    else:
        raise KeyError(kind)
    return m, x.to(dtype)


def symbolic_params(mode, model, prefix="p"):
    """make every parameter element symbolic; returns {name: term array}"""
    out = {}
    for n, p in model.named_parameters():
        if type(p.data) is torch.Tensor:
            out[n] = mode.symbolic(p.data, f"{prefix}.{n}")
    return out


def set_scales(model, in_scale=0.05, out_scale=0.07):
    from optimum.quanto.nn import QModuleMixin

    for m in model.modules():
        if isinstance(m, QModuleMixin):
            # as calibration leaves them: in the dtype of the module's activations (absmax_scale returns the input dtype)
            dt = m.weight.dtype if m.weight is not None else m.input_scale.dtype
            m.input_scale = torch.tensor(in_scale, dtype=dt)
            m.output_scale = torch.tensor(out_scale, dtype=dt)
