"""C11 - Gradients pass straight through quantization and match the float linear backward (DESIGN.md section 6, C11)."""
import torch

from . import models, wq

EVIDENCE = dict(
    bounds="input, weight, bias and the upstream gradient symbolic; Linear(3,2) with input ranks 2,3,4 (batch dims <= 2) and Conv2d(1,2,2); plus, for every integer literal L in 24..32768 that the current source of tensor/qtensor_func.py, tensor/qbytes_ops.py, tensor/qbytes.py, nn/qlinear.py, nn/qconv2d.py uses in a comparison, //, %, range/split/chunk or constant assignment, inputs with L+1 and 2L+1 rows (none on the pinned tree); six weight qtypes; activations None/qint8 (+qfloat8_e4m3fn thorough); float32 (+float16 thorough); frozen and unfrozen; weight updates in three styles (no_grad copy_, .data.copy_, .data rebinding) followed by a forward; every combination of requires_grad flags on weight, bias and input; float16: bit-exact (BIT) rounding clause when terms differ, weight codes and scales cut to free variables",
    outside="higher-order gradients; CUDA kernels; sizes beyond the bounds (the hand-written backward's rank handling is exercised for ranks 2-4)",
    assumptions=[
        "ALG term identity (uninterpreted float ops, canonical multiset form of contractions) = equal under any float semantics; on a mismatch the disequality is asked in exact real arithmetic (RERR ideal) and the model replayed",
        "convolution / convolution_backward are opaque: equal iff their argument terms and static arguments are equal",
    ],
)
CASE_DEADLINE = dict(quick=300.0, thorough=1200.0)
ALLQ = wq.QT8 + wq.QTB
THRESHOLD_FILES = ["optimum/quanto/tensor/qtensor_func.py", "optimum/quanto/tensor/qbytes_ops.py", "optimum/quanto/tensor/qbytes.py", "optimum/quanto/nn/qlinear.py", "optimum/quanto/nn/qconv2d.py"]


def cases(tier, seed):
    out = []
    acts = [None, "qint8"] if tier == "quick" else [None, "qint8", "qfloat8_e4m3fn"]
    for dt in ["float32"] + (["float16"] if tier == "thorough" else []):
        for q in ALLQ:
            for a in acts:
                for shape in ([[2, 3], [2, 1, 3], [1, 2, 2, 3]] if tier == "quick" else [[2, 3], [1, 3], [2, 1, 3], [2, 2, 3], [1, 2, 2, 3]]):
                    out.append(dict(kind="grad", module="linear", dtype=dt, qtype=q, act=a, xshape=shape))
                out.append(dict(kind="grad", module="conv", dtype=dt, qtype=q, act=a, xshape=[1, 1, 2, 3]))
            out.append(dict(kind="stale", module="linear", dtype=dt, qtype=q))
            # which operands require a gradient (bias-only fine-tuning, frozen-feature extraction, ...)
            for rg in ([False, True, True], [True, False, True], [True, True, False], [False, True, False]) if (tier == "thorough" or q in ("qint8", "qint4")) else ():
                out.append(dict(kind="grad", module="linear", dtype=dt, qtype=q, act=acts[1] if rg[2] else None, xshape=[2, 3], rg=rg))
                if tier == "thorough" or rg == [False, True, True]:
                    out.append(dict(kind="grad", module="conv", dtype=dt, qtype=q, act=None, xshape=[1, 1, 2, 3], rg=rg))
            if tier == "quick" and q in ("qint8", "qfloat8_e4m3fn"):
                out.append(dict(kind="grad", module="linear", dtype="float16", qtype=q, act=None, xshape=[2, 3]))
            if tier == "thorough":
                out.append(dict(kind="stale", module="conv", dtype=dt, qtype=q))
    # row counts derived from the integer thresholds of the current source of the hand-written backward (none on the pinned tree):
    # a blocked / chunked / fast path that starts beyond the default batch bounds is entered with one and two blocks plus a remainder
    for L, where in sorted(wq.size_thresholds(THRESHOLD_FILES).items()):
        for rows in (L + 1, 2 * L + 1):
            if rows * 3 <= 40000:
                for a in (None, "qint8"):
                    out.append(dict(kind="grad", module="linear", dtype="float32", qtype="qint8", act=a, xshape=[rows, 3], threshold=f"{L} at {where[0]}"))
    return out


def build(module, dt, qtype, act):
    from optimum.quanto import quantize

    model, _ = models.make("linear" if module == "linear" else "conv", dt)
    quantize(model, weights=wq.qt(qtype), activations=wq.qt(act) if act else None)
    if act:
        models.set_scales(model, 0.05, 0.09)
    return model


def grads_pair(model, x, gO, read, rg=(True, True, True)):
    """returns dict name -> (quantized-module gradient, reference gradient) as comparable objects, plus problems.
    rg = which of (weight, bias, input) require a gradient"""
    import torch.nn.functional as F

    from optimum.quanto import quantize_activation
    from optimum.quanto.tensor import QTensor

    qm = model[0]
    probs = []
    qm.weight.requires_grad_(rg[0])
    if qm.bias is not None:
        qm.bias.requires_grad_(rg[1])
    x = x.detach().requires_grad_(rg[2])
    y = model(x)
    yd = y.dequantize() if isinstance(y, QTensor) else y
    yd.backward(gO)
    got = dict(x=x.grad, weight=qm.weight.grad, bias=qm.bias.grad if qm.bias is not None else None)
    # reference: float functional on the dequantized quantized weight and the (de)quantized input
    wdq = qm.qweight.dequantize().detach().requires_grad_(rg[0])
    b2 = qm.bias.detach().clone().requires_grad_(rg[1]) if qm.bias is not None else None
    if qm.activation_qtype is not None:
        x2 = quantize_activation(x.detach(), qm.activation_qtype, qm.input_scale).dequantize().detach().requires_grad_(rg[2])
    else:
        x2 = x.detach().clone().requires_grad_(rg[2])
    if isinstance(qm, torch.nn.Linear):
        yr = F.linear(x2, wdq, b2)
    else:
        yr = F.conv2d(x2, wdq, b2, qm.stride, qm.padding, qm.dilation, qm.groups)
    yr.backward(gO)
    ref = dict(x=x2.grad, weight=wdq.grad, bias=b2.grad if b2 is not None else None)
    out = {}
    for k in got:
        if (got[k] is None) != (ref[k] is None):
            probs.append(f"{k}.grad is {'missing' if got[k] is None else 'present'} but the float twin's is not")
            continue
        if got[k] is not None:
            if tuple(got[k].shape) != tuple(ref[k].shape):
                probs.append(f"{k}.grad shape {tuple(got[k].shape)} != {tuple(ref[k].shape)}")
                continue
            out[k] = (read(got[k]), read(ref[k]))
    for n, b in qm.named_buffers():
        if b.grad is not None or b.requires_grad:
            probs.append(f"scale buffer {n} receives a gradient")
    return out, probs


def grad_mags(model, x, gO):
    """per-element magnitude of the float twin's gradient contractions (sum of absolute products), in float64"""
    import torch.nn.functional as F

    from optimum.quanto import quantize_activation

    qm = model[0]
    wdq = qm.qweight.dequantize().detach().double().abs().requires_grad_(True)
    b2 = qm.bias.detach().double().abs().requires_grad_(True) if qm.bias is not None else None
    if qm.activation_qtype is not None:
        x2 = quantize_activation(x.detach(), qm.activation_qtype, qm.input_scale).dequantize().detach()
    else:
        x2 = x.detach()
    x2 = x2.double().abs().requires_grad_(True)
    if isinstance(qm, torch.nn.Linear):
        yr = F.linear(x2, wdq, b2)
    else:
        yr = F.conv2d(x2, wdq, b2, qm.stride, qm.padding, qm.dilation, qm.groups)
    yr.backward(gO.double().abs())
    return dict(x=x2.grad, weight=wdq.grad, bias=b2.grad if b2 is not None else None)


def frozen_problems(model, x, gO):
    from optimum.quanto import freeze
    from optimum.quanto.tensor import QTensor

    freeze(model)
    qm = model[0]
    x = x.detach().requires_grad_(True)
    y = model(x)
    yd = y.dequantize() if isinstance(y, QTensor) else y
    yd.backward(gO)
    probs = []
    if qm.weight.grad is not None:
        probs.append("frozen weight received a gradient")
    for n, b in qm.named_buffers():
        if b.grad is not None:
            probs.append(f"scale {n} received a gradient")
    return probs


def stale_scenario(module, dt, qtype, style, x, new_w, read):
    """forward, update the float weight in place, forward again: the second output must be that of a fresh module on the
    new weights. returns (second output, fresh output)"""
    from optimum.quanto.tensor import QTensor

    model = build(module, dt, qtype, None)
    qm = model[0]
    with torch.no_grad():
        y0 = model(x)
    if style == "copy_":
        with torch.no_grad():
            qm.weight.copy_(new_w)
    elif style == "data.copy_":
        qm.weight.data.copy_(new_w)
    else:
        qm.weight.data = new_w
    with torch.no_grad():
        y1 = model(x)
    fresh = build(module, dt, qtype, None)
    with torch.no_grad():
        fresh[0].weight.copy_(new_w)
        if qm.bias is not None:
            fresh[0].bias.copy_(qm.bias)
        yf = fresh(x)
    d = lambda t: t.dequantize() if isinstance(t, QTensor) else t  # noqa
    return read(d(y1)), read(d(yf)), read(d(y0))


def _bit_tolerance(res, ctx, k, A, B, QD, QS, X, G, P, enc, dt, case, x, oshape, model):
    """terms differ but may be equal up to rounding: decide bit-exactly (float16) whether the gradient can leave the float
    twin's by more than accumulation rounding.  Weight codes and scales are cut to free variables (any code, any positive
    scale); all operands positive, so there is no cancellation and a relative bound plus 4 subnormal steps is the standard
    error model of the twin's own contraction."""
    import z3

    from symt import api, bit
    from symt import terms as tm

    nodes = list(QD.reshape(-1)) + list(QS.reshape(-1))
    roots = list(A.reshape(-1)) + list(B.reshape(-1))
    cutr, cmap, _ = api.cut(ctx, roots, nodes, "qw")
    n = len(roots) // 2
    b = bit.Bit(ctx)
    f32 = z3.FPSort(8, 24)
    up = lambda e: z3.fpToFP(z3.RNE(), e, f32)  # noqa
    fin = lambda e: z3.Not(z3.Or(z3.fpIsNaN(e), z3.fpIsInf(e)))  # noqa
    eta = 2.0**-24
    bad = []
    for a_, b_ in zip(cutr[:n], cutr[n:]):
        if a_ is b_:
            continue
        az, bz = up(b.tr(a_)), up(b.tr(b_))
        tol = z3.fpAdd(z3.RNE(), z3.fpMul(z3.RNE(), z3.FPVal(2.0**-6, f32), z3.fpAbs(bz)), z3.FPVal(4 * eta, f32))
        bad.append(z3.And(fin(bz), z3.Or(z3.Not(fin(az)), z3.fpGT(z3.fpAbs(z3.fpSub(z3.RNE(), az, bz)), tol))))
    pre = []
    qmax = {"qint8": 127.0, "qfloat8_e4m3fn": 448.0, "qfloat8_e5m2": 57344.0}[case["qtype"]]
    rows = QD.shape[0]
    for idx, t in np_ndenumerate(QD):
        cz = b.tr(cmap[t.uid])
        if z3.is_fp(cz):
            pre += [fin(cz), z3.fpGT(cz, z3.FPVal(0, cz.sort()))] + ([z3.fpEQ(cz, z3.FPVal(qmax, cz.sort()))] if idx[-1] == 0 else [])
        else:
            pre += [cz > 0] + ([cz == int(qmax)] if idx[-1] == 0 else [])
    for t in QS.reshape(-1):
        sz = b.tr(cmap[t.uid])
        pre += [z3.fpGT(sz, z3.FPVal(2.0**-14, sz.sort())), z3.fpLT(sz, z3.FPVal(1.0, sz.sort()))]
    free = [t for arr in (X, G, P.get("0.bias")) if arr is not None for t in arr.reshape(-1)]
    for t in free:
        vz = b.vars.get(t.args[0])
        if vz is not None:
            pre += [fin(vz), z3.fpGT(vz, z3.FPVal(0, vz.sort()))]
    v, secs, mdl = api.solve(list(b.side) + pre + [z3.Or(*bad)], 240)
    res.query(f"{k}.grad-within-rounding-of-float-twin", "BIT", v, secs, sub="weight codes and scales cut to free variables; positive operands")
    if v == "sat":
        codes = api.model_values(b, mdl, [cmap[t.uid] for t in QD.reshape(-1)])
        scales = api.model_values(b, mdl, [cmap[t.uid] for t in QS.reshape(-1)])
        w = (torch.tensor([float(c_) for c_ in codes], dtype=torch.float64).reshape(QD.shape) * torch.tensor([float(s_) for s_ in scales], dtype=torch.float64).reshape(QS.shape)).to(dt)
        e2 = dict(enc)
        e2["w"] = api.enc_tensor(w)
        e2["x"] = api.enc_tensor(api.tensor_from_values(api.model_values(b, mdl, X), tuple(x.shape), dt))
        e2["g"] = api.enc_tensor(api.tensor_from_values(api.model_values(b, mdl, G), oshape, dt))
        if P.get("0.bias") is not None:
            e2["b"] = api.enc_tensor(api.tensor_from_values(api.model_values(b, mdl, P["0.bias"]), tuple(model[0].bias.shape), dt))
        res.candidate("grad-rounding", "BIT", e2)


def np_ndenumerate(arr):
    import numpy as np

    return list(np.ndenumerate(arr))


def run_case(case, res):
    import numpy as np
    import z3

    from symt import api, rerr
    from symt import terms as tm
    from symt.api import Session

    dt = api.DT[case["dtype"]]
    bits = wq.qt(case["qtype"]).bits
    if case["kind"] == "grad":
        model = build(case["module"], dt, case["qtype"], case["act"])
        x = torch.randn(case["xshape"]).to(dt)
        with torch.no_grad():
            oshape = tuple(model(x).shape)
        gO = torch.randn(oshape).to(dt)
        with Session(res) as m:
            X, G = m.symbolic(x, "x"), m.symbolic(gO, "g")
            P = models.symbolic_params(m, model)
            pairs, probs = grads_pair(model, x, gO, m.read, tuple(case.get("rg", (True, True, True))))
            qw_ = model[0].qweight
            QD, QS = (m.read(qw_._data), m.read(qw_._scale)) if bits == 8 else (None, None)
        ctx = m.ctx
        res.side_ok("gradient-presence-and-shape", not probs, "; ".join(probs))
        enc = dict(kind="grad", module=case["module"], dtype=case["dtype"], qtype=case["qtype"], act=case["act"], rg=list(case.get("rg", (True, True, True))), x=api.enc_tensor(x), g=api.enc_tensor(gO), w=api.enc_tensor(model[0].weight.data), b=api.enc_tensor(model[0].bias.data))
        if probs:
            res.side[-1]["replayed"] = True
            res.candidate("grad-presence", "side", enc, exact=True)
        nv = x.numel() + gO.numel() + sum(v.size for v in P.values())
        for k, (A, B) in pairs.items():
            eq = api.equal_modulo_bits(ctx, A, B, bits if bits < 8 else None, None) if not all(a is b for a, b in zip(A.reshape(-1), B.reshape(-1))) else True
            res.query(f"{k}.grad-equals-float-twin", "ALG", "unsat" if eq else "sat", 0.0, sub=f"{case['module']} x{case['xshape']}", nvars=nv)
            if not eq:
                # distinguishing input in exact arithmetic
                mp = api.unpack_lemma(ctx, list(A.reshape(-1)) + list(B.reshape(-1)), bits, None) if bits < 8 else {}
                A2, B2 = api.subst(ctx, list(A.reshape(-1)), mp or {}), api.subst(ctx, list(B.reshape(-1)), mp or {})
                found = False
                try:
                    r = rerr.Rerr(ctx, ideal=True)
                    neq = [r.tr(a) != r.tr(b) for a, b in zip(A2, B2) if a is not b]
                    v, secs, model_ = api.solve(r.cons + [z3.Or(*neq)], 90)
                    res.query(f"{k}.grad-equals-float-twin", "RERR-ideal", v, secs, sub="distinguishing input")
                    if v == "sat":
                        found = True
                        e2 = dict(enc)
                        e2["x"] = api.enc_tensor(api.tensor_from_values(api.real_model_values(r, model_, X, dt), tuple(x.shape), dt))
                        e2["g"] = api.enc_tensor(api.tensor_from_values(api.real_model_values(r, model_, G, dt), oshape, dt))
                        e2["w"] = api.enc_tensor(api.tensor_from_values(api.real_model_values(r, model_, P["0.weight"], dt), tuple(model[0].weight.shape), dt))
                        e2["b"] = api.enc_tensor(api.tensor_from_values(api.real_model_values(r, model_, P["0.bias"], dt), tuple(model[0].bias.shape), dt))
                        res.candidate("grad", "RERR-ideal", e2)
                except NotImplementedError as e:  # noqa
                    res.notes.append(f"ideal query not expressible: {e}")
                res.candidate("grad", "ALG", enc, note=f"{k}.grad terms differ from the float twin's (seed as witness)")
                if dt == torch.float16 and bits == 8 and case["act"] is None and case["module"] == "linear":
                    _bit_tolerance(res, ctx, k, A, B, QD, QS, X, G, P, enc, dt, case, x, oshape, model)
        # frozen weights and scales receive no gradient
        fm = build(case["module"], dt, case["qtype"], case["act"])
        fp = frozen_problems(fm, x, gO)
        res.side_ok("frozen-weights-and-scales-get-no-gradient", not fp, "; ".join(fp))
        if fp:
            res.side[-1]["replayed"] = True
            e3 = dict(enc)
            e3["kind"] = "frozen"
            res.candidate("frozen-grad", "side", e3, exact=True)
        return

    if case["kind"] == "stale":
        for style in ("copy_", "data.copy_", "data="):
            model0 = build(case["module"], dt, case["qtype"], None)
            _, x = models.make("linear" if case["module"] == "linear" else "conv", dt)
            new_w = (torch.randn(model0[0].weight.shape) * 1.7).to(dt)
            with Session(res) as m:
                X = m.symbolic(x, "x")
                NW = m.symbolic(new_w, "w_new")

                def build_sym(*a):
                    mod = build_orig(*a)
                    return mod

                # old weights symbolic too: the second output must not mention them
                import checks.c11 as me

                build_orig = me.build
                created = []

                def patched(*a):
                    mod = build_orig(*a)
                    if not created:
                        created.append(m.symbolic(mod[0].weight.data, "w_old"))
                    return mod

                me.build = patched
                try:
                    y1, yf, y0 = stale_scenario(case["module"], dt, case["qtype"], style, x, new_w, m.read)
                finally:
                    me.build = build_orig
            sup = tm.support(list(y1.reshape(-1)))
            stale = sorted(s for s in sup if s.startswith("w_old"))
            eq = api.equal_modulo_bits(m.ctx, y1, yf, bits if bits < 8 else None, None)
            ok = not stale and bool(eq)
            res.query("forward-reflects-weight-update", "ALG", "unsat" if ok else "sat", 0.0, sub=f"{style}", nvars=x.numel() + 2 * new_w.numel())
            if not ok:
                res.candidate("stale", "ALG", dict(kind="stale", module=case["module"], dtype=case["dtype"], qtype=case["qtype"], style=style, x=api.enc_tensor(x), new_w=api.enc_tensor(new_w)), note=f"second forward depends on old weights {stale[:3]} / differs from a fresh module")
        return
    raise KeyError(case["kind"])


def replay(rec):
    from symt import api

    inp = rec["inputs"]
    dt = api.DT[inp["dtype"]]
    if inp["kind"] in ("grad", "frozen"):
        model = build(inp["module"], dt, inp["qtype"], inp["act"])
        with torch.no_grad():
            model[0].weight.copy_(api.dec_tensor(inp["w"]))
            model[0].bias.copy_(api.dec_tensor(inp["b"]))
        x, g = api.dec_tensor(inp["x"]), api.dec_tensor(inp["g"])
        if inp["kind"] == "frozen":
            fp = frozen_problems(model, x, g)
            key = ["C11/frozen-weight-receives-gradient"] if fp and all(p == "frozen weight received a gradient" for p in fp) else None
            return bool(fp), "; ".join(fp) or "frozen ok", key
        pairs, probs = grads_pair(model, x, g, lambda t: t.detach().clone(), tuple(inp.get("rg", (True, True, True))))
        mags = grad_mags(model, x, g)
        for k, (a, b) in pairs.items():
            tol = 1e-5 if dt == torch.float32 else 2e-2
            # per element: a fraction of the contraction's magnitude (sum of absolute products) plus four subnormal steps
            eta = 2.0**-149 if dt == torch.float32 else (2.0**-24 if dt == torch.float16 else 2.0**-133)
            lim = tol * mags[k].reshape(b.shape) + 4 * eta
            fine = torch.isfinite(b.double())
            if bool((((a.double() - b.double()).abs() > lim) & fine).any()) or bool((~torch.isfinite(a.double()) & fine).any()):
                probs.append(f"{k}.grad = {a.tolist()} but the float twin gives {b.tolist()}")
        return bool(probs), "\n".join(probs[:4]) or "gradients match", None
    if inp["kind"] == "stale":
        x, nw = api.dec_tensor(inp["x"]), api.dec_tensor(inp["new_w"])
        y1, yf, y0 = stale_scenario(inp["module"], dt, inp["qtype"], inp["style"], x, nw, lambda t: t.detach().clone())
        bad = not torch.equal(y1, yf)
        return bad, f"after a {inp['style']} weight update the next forward gives {y1.tolist()} but a fresh module on the new weights gives {yf.tolist()} (before the update: {y0.tolist()})", None
    raise KeyError(inp["kind"])
