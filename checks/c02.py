"""C02 - int2/int4 affine quantization error is at most half a step per group (DESIGN.md section 6, C02)."""
import itertools
from fractions import Fraction

import torch

from . import wq

EVIDENCE = dict(
    bounds="value clause (RERR): one group of N symbolic finite elements under an assumed total order (roles min / middles / max) - N=3 every ordering (quick: 2 of 6), N=4 all 24 orderings (quick: 1), N=5, 8, 16, 32, 64 two to three orderings each (quick: N=8, one ordering), hull regions straddling / positive / negative, bits in {2,4}, float16/bfloat16/float32; BIT: 2 groups x 2 elements float16/bfloat16 (float32 under a 120 s cap); plumbing (ALG): ranks 1..4 with dims <= 4 (covering subset in quick), every divisor group size and None, axis 0 and -1, three layouts",
    outside="groups larger than 64 elements (quick: 8) for the solver-decided value clause, and orderings of the larger groups other than the listed ones (an ordering only selects which variable plays min and max: the min/max chains of the real optimizer are resolved per ordering); beyond that, groups are covered by the plumbing identity: each element is the scalar affine kernel applied with the real optimizer's scale/zero-point of its own group); shapes beyond the bounds; custom optimizers; CUDA/MPS",
    assumptions=[
        "RERR standard model of IEEE arithmetic; its no-overflow / no-wrap obligations are assumed in the value clause and are exactly the regions asked for (and found) by the BIT clause",
        "unpack(pack(code)) == code is established per run by the range and field lemmas (BIT) and then used to cut the bit operations out of the RERR/ALG terms",
        "scale lemma: the optimizer's scale is within 3u of (max-min)/(2^bits-1) (RERR), then cut into a free variable constrained by the lemma",
    ],
)
CASE_DEADLINE = dict(quick=400.0, thorough=1800.0)


def _shapes(tier):
    if tier == "thorough":
        dims = (1, 2, 4)
        return [s for r in (1, 2, 3, 4) for s in itertools.product(dims, repeat=r) if len(s) > 1 or s[0] > 1][:70] + [(3, 4), (4, 3), (6, 2), (2, 6), (3, 2, 2)]
    return [(4,), (2, 4), (4, 2), (3, 4), (4, 4), (2, 2, 2), (1, 4), (4, 1), (2, 3, 2), (2, 1, 2, 2), (2, 2, 2, 2)]


def cases(tier, seed):
    out = []
    perms = list(itertools.permutations(range(3)))
    for dt in ("float16", "bfloat16", "float32"):
        for q in wq.QTB:
            for p in (perms if tier == "thorough" else [perms[0], perms[3]]):
                out.append(dict(kind="group3", dtype=dt, qtype=q, perm=list(p)))
            # larger groups: under an assumed total order every min/max chain resolves, so each element's term depends on itself,
            # the minimum and the maximum only; 4 and 5 elements exercise "several middles" and every position of the extremes
            p4 = list(itertools.permutations(range(4)))
            p8, p16 = [5, 2, 7, 0, 3, 6, 1, 4], [(5 * k + 3) % 16 for k in range(16)]
            big = ([list(x) for x in p4] + [[4, 0, 2, 1, 3], [1, 3, 0, 4, 2], p8, p8[::-1], p16, p16[::-1], [(11 * k + 7) % 32 for k in range(32)], [(27 * k + 5) % 64 for k in range(64)]]) if tier == "thorough" else ([[2, 0, 3, 1], p8] if dt != "float32" else [p8])
            for p in big:
                out.append(dict(kind="group3", dtype=dt, qtype=q, perm=p))
            if dt != "float32" or tier == "thorough":
                out.append(dict(kind="bit", dtype=dt, qtype=q, tier=tier))
        for q in wq.QTB:
            if dt in ("float16", "float32"):
                out.append(dict(kind="requant", dtype=dt, qtype=q))
    shapes = _shapes(tier)
    shapes = list(shapes) + [s for s in wq.quantizer_threshold_shapes(hi=256) if s not in shapes]  # empty on the pinned tree
    n = 3 if tier == "quick" else 6
    for dt in ("float16", "float32") if tier == "quick" else ("float16", "bfloat16", "float32"):
        for q in wq.QTB:
            for i in range(0, len(shapes), n):
                out.append(dict(kind="plumb", dtype=dt, qtype=q, shapes=[list(s) for s in shapes[i : i + n]]))
    return out


def specialise(ctx, roots, rank, region=None):
    """resolve min/max chains over variables whose total order is assumed (rank: var uid -> position 0..n-1).  With a region
    ('pos': all > 0, 'neg': all < 0, 'straddle': min <= 0 <= max) the constant 0 takes part as well: a chain that contains the
    known extreme element resolves to it (or to 0 when 0 is the extreme in that region)."""
    from symt import api
    from symt import terms as tm

    nvars = len(rank)
    mapping = {}
    for t in tm.topo(list(roots)):
        if t.op not in ("min", "max"):
            continue
        ops, stack, ok = {}, [t], True
        while stack:
            x = stack.pop()
            if x.op == t.op and x.dt == t.dt:
                stack.extend(x.args)
            elif x.op == "var" and x.uid in rank:
                ops[x.uid] = x
            elif x.op == "const" and x.cv == 0 and region is not None:
                ops["zero"] = x
            else:
                ok = False
                break
        if not ok or not ops:
            continue
        vs = [v for k, v in ops.items() if k != "zero"]
        zero = ops.get("zero")
        pick = None
        if t.op == "min":
            lowest = min(vs, key=lambda v: rank[v.uid]) if vs else None
            if zero is None:
                pick = lowest
            elif region == "pos":
                pick = zero
            elif region == "neg":
                pick = lowest if lowest is not None and rank[lowest.uid] == 0 else None
            elif region == "straddle":
                pick = lowest if lowest is not None and rank[lowest.uid] == 0 else None
        else:
            highest = max(vs, key=lambda v: rank[v.uid]) if vs else None
            if zero is None:
                pick = highest
            elif region == "neg":
                pick = zero
            elif region in ("pos", "straddle"):
                pick = highest if highest is not None and rank[highest.uid] == nvars - 1 else None
        if pick is not None:
            mapping[t.uid] = pick
    return api.subst(ctx, list(roots), mapping)


def run_case(case, res):
    import numpy as np
    import z3

    from symt import api, bit, rerr
    from symt import terms as tm
    from symt.api import Session
    from symt.rerr import rv, zabs

    from optimum.quanto import quantize_weight
    from optimum.quanto.tensor.optimizers import MaxOptimizer
    from optimum.quanto.tensor.quantizers import AffineQuantizer

    dt = api.DT[case["dtype"]]
    q_t = wq.qt(case["qtype"])
    bits = q_t.bits
    n = 2**bits - 1
    f = tm.FMT[dt]
    u = Fraction(1, 2 ** f["p"])
    eta = Fraction(2) ** (f["emin"] - f["p"])
    fin = lambda e: z3.Not(z3.Or(z3.fpIsNaN(e), z3.fpIsInf(e)))  # noqa

    def enc(w, axis, gs):
        return dict(w=api.enc_tensor(w), qtype=case["qtype"], axis=axis, group_size=gs)

    if case["kind"] == "group3":
        perm = case["perm"]
        ne = len(perm)
        w = torch.tensor([([0.3, -0.2, 0.7] + [round(0.61 * ((k * 7) % 11) / 11 - 0.17, 3) for k in range(ne - 3)])], dtype=dt)
        with Session(res) as m:
            W = m.symbolic(w, "w")
            q = quantize_weight(w, q_t, 0)
            D = m.read(q.dequantize())
            SC = m.read(q._scale).reshape(-1)[0]
        ctx = m.ctx
        mp = api.unpack_lemma(ctx, list(D.reshape(-1)), bits, res)
        if mp is None:
            return
        D2 = api.subst(ctx, list(D.reshape(-1)), mp)
        rank = {W[0, perm[k]].uid: k for k in range(ne)}
        for region in ("straddle", "pos", "neg"):
            D3 = specialise(ctx, D2, rank, region)
            (SC3,) = specialise(ctx, [SC], rank, region)
            # scale lemma: the optimizer's scale is within 3u of range/(2^bits-1) where the range is either the hull of the group and
            # zero or the group's own min..max (both satisfy the property; the one that is proved becomes the cut assumption)
            r = rerr.Rerr(ctx)
            wr = [r.tr(W[0, k]) for k in range(ne)]
            lo_, hi_ = wr[perm[0]], wr[perm[-1]]
            order = [wr[perm[k]] <= wr[perm[k + 1]] for k in range(ne - 1)]
            regc = {"straddle": [lo_ <= 0, hi_ >= 0], "pos": [lo_ > 0], "neg": [hi_ < 0]}[region]
            hull = {"straddle": hi_ - lo_, "pos": hi_, "neg": -lo_}[region]
            sr = r.tr(SC3)
            exact = None
            for cand_name, cand in (("hull-with-zero", hull / n), ("min-max", (hi_ - lo_) / n)):
                good = True
                for gi, g in enumerate((sr - cand, cand - sr)):
                    v, secs, _ = api.solve(r.cons + order + regc + [g > rv(3 * u) * cand + rv(2 * eta)], 60)
                    res.query("scale-lemma", "RERR", v, secs, sub=f"{region} {cand_name} side{gi}")
                    good = good and v == "unsat"
                if good:
                    exact = cand_name
                    break
            if exact is None:
                res.candidate("half-step", "RERR", enc(w, 0, None), note="scale lemma failed for both admissible ranges; seed as witness")
                continue
            D4, cmap, _ = api.cut(ctx, D3, [SC3], "scale")
            svar = cmap[SC3.uid]
            for i in range(ne):
                r = rerr.Rerr(ctx)
                wr = [r.tr(W[0, k]) for k in range(ne)]
                dr = [r.tr(d) for d in D4]
                sr = r.tr(svar)
                order = [wr[perm[k]] <= wr[perm[k + 1]] for k in range(ne - 1)]
                lo_, hi_ = wr[perm[0]], wr[perm[-1]]
                if region == "straddle":
                    reg, lo, hi = [lo_ <= 0, hi_ >= 0], lo_, hi_
                elif region == "pos":
                    reg, lo, hi = [lo_ > 0], 0, hi_
                else:
                    reg, lo, hi = [hi_ < 0], lo_, 0
                step = (hi - lo) / n
                # obligations = complement of the known-finding regions (zero-point / code-zero-point wrap, zero scale)
                obl = [o for k, o, t in r.oblig]
                ex = (hi - lo) / n if exact == "hull-with-zero" else (hi_ - lo_) / n
                slem = [sr - ex <= rv(3 * u) * ex + rv(2 * eta), ex - sr <= rv(3 * u) * ex + rv(2 * eta), sr > 0]
                for sgn in (1, -1):
                    if (region == "pos" and sgn < 0) or (region == "neg" and sgn > 0):
                        continue
                    sg = [wr[i] >= 0] if sgn > 0 else [wr[i] <= 0]
                    awi = wr[i] if sgn > 0 else -wr[i]
                    tol = rv(8 * u) * (awi + (hi - lo)) + rv(2 ** (bits + 2) * eta)
                    for gi, g in enumerate((dr[i] - wr[i], wr[i] - dr[i])):
                        v, secs, model = api.solve(r.cons + order + reg + sg + obl + slem + [hi_ > lo_, g > step / 2 + tol], 90)
                        res.query("half-step", "RERR", v, secs, sub=f"{region} elem{i} sign{sgn} side{gi}")
                        if v == "sat":
                            wv = api.real_model_values(r, model, W, dt)
                            res.candidate("half-step", "RERR", enc(api.tensor_from_values(wv, (1, ne), dt), 0, None))
                if i == 0:
                    v, secs, _ = api.solve(r.cons + order + reg + obl + slem + [hi_ > lo_], 30)
                    res.query("vacuity-half-step", "RERR", "unsat" if v == "sat" else "unknown", secs, sub=region, symbolic=False)
        return

    if case["kind"] == "bit":
        w = torch.tensor([[0.3, -0.2], [0.11, 0.4]], dtype=dt)
        with Session(res) as m:
            W = m.symbolic(w, "w")
            q = quantize_weight(w, q_t, 0)
            D = m.read(q.dequantize())
            SC, ZP = m.read(q._scale).reshape(-1), m.read(q._zeropoint).reshape(-1)
        ctx = m.ctx
        b = bit.Bit(ctx)
        Wz = [b.tr(x) for x in W.reshape(-1)]
        pre = [fin(x) for x in Wz]
        cap = 120 if dt != torch.float32 else 120
        # regions, expressed on the real run's own intermediate terms
        zp_args = [a for a, cdt in ctx.cast_obligations if cdt == torch.int8 and tm.is_float(a.dt)]
        zp_args = list({a.uid: a for a in zp_args}.values())
        R_zp = z3.Or(*[z3.Or(z3.fpIsNaN(b.tr(a)), z3.fpLT(b.tr(a), z3.FPVal(-128, b.tr(a).sort())), z3.fpGT(b.tr(a), z3.FPVal(127, b.tr(a).sort()))) for a in zp_args]) if zp_args else z3.BoolVal(False)
        R_const = z3.Or(*[z3.fpIsZero(b.tr(s)) for s in SC])
        R_czp = z3.Or(*[b.tr(z) < -(127 - n) for z in ZP])
        rng = [t for t in tm.topo(list(SC)) if t.op == "sub" and tm.is_float(t.dt)]
        R_range = z3.Or(*[z3.Not(fin(b.tr(t))) for t in rng]) if rng else z3.BoolVal(False)
        ends = []
        for s_, z_ in zip(SC, ZP):
            sz_, zz_ = b.tr(s_), b.tr(z_)
            for code in (0, n):
                ends.append(z3.fpMul(z3.RNE(), sz_, z3.fpSignedToFP(z3.RNE(), z3.BitVecVal(code, 8) - zz_, sz_.sort())))
        R_end = z3.Or(*[z3.Not(fin(e)) for e in ends])
        regions = {"grid-endpoint-overflow": z3.And(z3.Not(R_zp), z3.Not(R_czp), z3.Not(R_range), z3.Not(R_const), R_end), "zeropoint-overflow": R_zp, "zero-scale-underflow": R_const, "code-minus-zeropoint-overflow": z3.And(z3.Not(R_zp), R_czp), "range-overflow": R_range}
        outside = [z3.Not(R) for R in (R_zp, R_const, R_czp, R_range, R_end)]
        bad_out = z3.Or(*[z3.Not(fin(b.tr(d))) for d in D.reshape(-1)])
        # int8 subtraction code - zeropoint must not wrap
        # int8 subtraction code - zeropoint does not wrap outside the regions: codes < 2^bits (range lemma of the unpack cut)
        # and zeropoint >= -(127-n): decided on bit-vectors with the operands cut to free variables
        subs = [t for t in tm.topo(list(D.reshape(-1))) if t.op == "sub" and t.dt == torch.int8]
        mp = api.unpack_lemma(ctx, list(D.reshape(-1)), bits, res)
        for t in subs[:1] if mp is not None else []:
            (tc,), cm, _ = api.cut(ctx, [t], [x for x in t.args], "op")
            b2 = bit.Bit(ctx)
            c_, z_ = b2.tr(cm[t.args[0].uid]), b2.tr(cm[t.args[1].uid])
            v, secs, _ = api.solve([c_ >= 0, c_ <= n, z_ >= -(127 - n), z3.SignExt(8, c_) - z3.SignExt(8, z_) != z3.SignExt(8, b2.tr(tc))], 30)
            res.query("no-int8-wrap-outside-known-regions", "BIT", v, secs)
        for name, neg in (("finite-outside-known-regions", bad_out),):
            v, secs, model = api.solve(pre + outside + [neg], cap)
            res.query(name, "BIT", v, secs)
            if v == "sat":
                wv = api.model_values(b, model, W)
                res.candidate(name, "BIT", enc(api.tensor_from_values(wv, (2, 2), dt), 0, None), exact=(name.startswith("finite")))
        for key, R in regions.items():
            v, secs, model = api.solve(pre + [R], cap)
            res.query("known-region-witness", "BIT", "unsat" if v != "unknown" else v, secs, sub=f"{key}: {'inhabited' if v == 'sat' else 'empty' if v == 'unsat' else 'unknown'}", symbolic=True)
            if v == "sat":
                wv = api.model_values(b, model, W)
                res.candidate("region-witness:" + key, "BIT", enc(api.tensor_from_values(wv, (2, 2), dt), 0, None), exact=False)
        v, secs, _ = api.solve(pre + outside, 60)
        res.query("vacuity-outside-known-regions", "BIT", "unsat" if v == "sat" else "unknown", secs, symbolic=False)
        return

    if case["kind"] == "requant":
        w = torch.tensor([[0.3, -0.2, 0.7]], dtype=dt)
        with Session(res) as m:
            W = m.symbolic(w, "w")
            q = quantize_weight(w, q_t, 0)
            d = q.dequantize()
            q2 = AffineQuantizer.apply(d, q_t, 0, None, q._scale, q._zeropoint)
            C1 = m.read(q._data.unpack()).reshape(-1)
            C2 = m.read(q2._data.unpack()).reshape(-1)
            SC, ZP = m.read(q._scale).reshape(-1)[0], m.read(q._zeropoint).reshape(-1)[0]
        ctx = m.ctx
        mp = api.unpack_lemma(ctx, list(C1) + list(C2), bits, res)
        if mp is None:
            return
        C1s = api.subst(ctx, list(C1), mp)
        C2s = api.subst(ctx, list(C2), mp)
        # arbitrary valid state: code c in [0,n], zero-point z in int8 with c - z in int8, scale s > 0 (normal range)
        cut_nodes = [C1s[0], SC, ZP]
        (c2,), cmap, _ = api.cut(ctx, [C2s[0]], cut_nodes, "st")
        cv, sv, zv = cmap[C1s[0].uid], cmap[SC.uid], cmap[ZP.uid]
        rounds = api.find_nodes([c2], lambda t: t.op == "round")
        ints = api.find_nodes([c2], lambda t: t.op == "cast" and tm.is_float(t.dt) and t.args[0].dt == torch.int8 and t.args[0].op == "sub")
        if len(rounds) != 1 or len(ints) != 1:
            res.query("requantize-idempotent", "RERR", "unknown", 0.0, note=f"chain shape not recognised: {len(rounds)} roundings, {len(ints)} int->float casts")
            return
        y, tnode = rounds[0].args[0], ints[0]
        r = rerr.Rerr(ctx)
        yr, tr_, sr, cr, zr = r.tr(y), r.tr(tnode), r.tr(sv), r.tr(cv), r.tr(zv)
        pre = r.cons + [sr >= rv(8 * f["fmin_sub"]), sr * 143 <= rv(f["fmax"]), cr >= 0, cr <= n, cr - zr <= 127, cr - zr >= -128]
        for gi, g in enumerate((yr - tr_, tr_ - yr)):
            v, secs, model = api.solve(pre + [g >= rv(Fraction(1, 2))], 60)
            res.query("requantize-idempotent", "RERR", v, secs, sub=f"lemmaA side{gi}")
            if v == "sat":
                res.candidate("requantize-idempotent", "RERR", enc(w, 0, None), note="abstract model; seed used as witness")
        ci, yy, ri = z3.Int("c"), z3.Real("y"), z3.Int("r")
        v, secs, _ = api.solve([yy - ci < rv(Fraction(1, 2)), ci - yy < rv(Fraction(1, 2)), z3.ToReal(ri) - yy <= rv(Fraction(1, 2)), yy - z3.ToReal(ri) <= rv(Fraction(1, 2)), ri != ci], 30)
        res.query("requantize-idempotent", "LIA", v, secs, sub="lemmaB rounding of a near-integer", symbolic=False)
        (c2b,) = api.subst(ctx, [c2], {rounds[0].uid: tnode})
        r2 = rerr.Rerr(ctx, int_round=True)
        c2r, cr, zr = r2.tr(c2b), r2.tr(cv), r2.tr(zv)
        v, secs, _ = api.solve(r2.cons + [cr >= 0, cr <= n, cr - zr <= 127, cr - zr >= -128, c2r != cr], 30)
        res.query("requantize-idempotent", "RERR", v, secs, sub="lemmaC (c - z) + z clamped to [0,n] is c")
        return

    if case["kind"] == "plumb":
        for shape in case["shapes"]:
            shape = tuple(shape)
            for axis in (0, -1):
                per = int(np.prod(shape)) // shape[axis]
                gss = [None] + [g for g in wq.divisors(per)]
                if len(gss) > 4:
                    gss = [None, 1, gss[2], gss[-2], gss[-1]]
                for gs in gss:
                    for lname, layout in wq.layouts(shape):
                        w = layout((torch.randn(shape, dtype=torch.float32) * 2).to(dt))
                        cfg = f"{shape} axis={axis} group={gs} {lname}"
                        x0 = torch.tensor([[0.37]], dtype=dt)
                        s0 = torch.tensor([[0.05]], dtype=dt)
                        z0 = torch.tensor([[3]], dtype=torch.int8)
                        with Session(res) as m:
                            X0, S0, Z0 = m.symbolic(x0, "X"), m.symbolic(s0, "S"), m.symbolic(z0, "Z")
                            K = m.read(AffineQuantizer.apply(x0, q_t, 0, None, s0, z0).dequantize())[0, 0]
                            W = m.symbolic(w, "w")
                            try:
                                q = quantize_weight(w, q_t, axis, gs)
                                d = q.dequantize()
                            except Exception as e:  # noqa
                                res.side_ok("plumbing-accepts-valid-config", False, f"{cfg}: {type(e).__name__}: {e}")
                                res.side[-1]["replayed"] = True
                                res.candidate("plumbing", "side", enc(w, axis, gs), exact=True)
                                continue
                            D = m.read(d)
                            groups = wq.groups_oracle(shape, axis, gs)
                            # the real optimizer on each group's own elements (gathered by a pure data-movement op)
                            flat = w.reshape(-1)
                            lin = {idx: i for i, idx in enumerate(np.ndindex(shape))}
                            GS = []
                            for g in groups:
                                sel = torch.index_select(flat, 0, torch.tensor([lin[i] for i in g])).reshape(1, -1)
                                sc, zp = MaxOptimizer()(sel, bits, 0)
                                GS.append((m.read(sc).reshape(-1)[0], m.read(zp).reshape(-1)[0]))
                        ctx = m.ctx
                        meta_ok = tuple(d.shape) == shape and tuple(q.shape) == shape and d.dtype == dt and q._scale.dtype == dt and q._zeropoint.dtype == torch.int8 and q._scale.numel() == len(groups) and q._zeropoint.numel() == len(groups) and q.qtype == q_t and q.axis == axis and q._group_size == gs
                        res.side_ok("plumbing-metadata", meta_ok, cfg)
                        if not meta_ok:
                            res.side[-1]["replayed"] = True
                            res.candidate("plumbing", "side", enc(w, axis, gs), exact=True)
                            continue
                        mp = api.unpack_lemma(ctx, list(D.reshape(-1)) + [K], bits, None)
                        if mp is None:
                            res.query("plumbing-term-identity", "ALG", "unknown", 0.0, sub=cfg, note="unpack lemma not proved")
                            continue
                        Dl = api.subst(ctx, list(D.reshape(-1)), mp)
                        (Kl,) = api.subst(ctx, [K], mp)
                        bad = None
                        pos = {idx: i for i, idx in enumerate(np.ndindex(shape))}
                        for g, (sg, zg) in zip(groups, GS):
                            for idx in g:
                                (e,) = api.subst(ctx, [Kl], {X0[0, 0].uid: W[idx], S0[0, 0].uid: sg, Z0[0, 0].uid: zg})
                                if e is not Dl[pos[idx]]:
                                    bad = idx
                                    break
                            if bad:
                                break
                        res.query("plumbing-term-identity", "ALG", "unsat" if bad is None else "sat", 0.0, sub=cfg, nvars=w.numel())
                        if bad is not None:
                            res.candidate("plumbing", "ALG", enc(w, axis, gs), note=f"element {bad} is not the scalar affine kernel applied with its own group's scale/zero-point")
                            # a second witness with strongly different group ranges
                            w2 = layout((torch.randn(shape, dtype=torch.float32) * torch.arange(1, w.numel() + 1, dtype=torch.float32).reshape(shape)).to(dt))
                            res.candidate("plumbing", "ALG", enc(w2, axis, gs), note="second witness")
        return
    raise KeyError(case["kind"])


def replay(rec):
    from symt import api

    inp = rec["inputs"]
    w = api.dec_tensor(inp["w"])
    try:
        probs = wq.affine_oracle(w, inp["qtype"], inp["axis"], inp["group_size"])
        extra = []
        if not probs and w.dtype in (torch.float16, torch.float32):
            extra = wq.requant_oracle(w, inp["qtype"], inp["axis"], inp["group_size"])
    except Exception as e:  # noqa
        import traceback

        return True, f"quantize_weight/dequantize raised on a valid configuration: {type(e).__name__}: {e}\n{traceback.format_exc()[-800:]}", None
    if extra:
        # a re-quantization difference inside a group that lies in a known-finding region is that finding
        from optimum.quanto import quantize_weight as _qw  # noqa

        regs = set()
        wl = w.double()
        for g in wq.groups_oracle(tuple(w.shape), inp["axis"], inp["group_size"]):
            regs.add(wq.classify_group([float(wl[i]) for i in g], wq.qt(inp["qtype"]).bits, w.dtype))
        regs.discard(None)
        return True, "\n".join(extra), (sorted("C02/" + r for r in regs) if regs else None)
    if not probs:
        return False, f"C02 oracle holds on w={w.tolist()}", None
    regions = {p[3] for p in probs}
    key = None
    if None not in regions:
        key = sorted("C02/" + r for r in regions)
    return True, f"C02 oracle on w={w.tolist()} qtype={inp['qtype']} axis={inp['axis']} group_size={inp['group_size']}:\n" + "\n".join(p[2] for p in probs[:4]), key
