"""C06 - A quantized tensor's reported metadata always matches what it holds (DESIGN.md section 6, C06)."""
import torch

from . import models, qops, wq

EVIDENCE = dict(
    bounds="every quantized tensor returned by one step of every catalogued operation (dispatch tables of the current source + pass-through list) from an arbitrary valid pre-state, by depth-2 compositions, by quantize_weight/quantize_activation for all six qtypes, by state_dict round trips, by freeze and by dtype/device moves; shapes (2,3), (2,2), (4,), (2,2,3), (5,3) for packed tensors; float16/float32",
    outside="the metadata predicates do not depend on element values: for them the solver contributes nothing beyond the enumeration of configurations (reported as side conditions); the solver-decided part is that moves/copies return identical code terms and that a dtype move changes only the scale terms; shapes beyond the bounds; CUDA/MPS moves",
    assumptions=["inductive-step structure: every result is itself checked to satisfy the invariant, which is what covers histories of any length"],
)
CASE_DEADLINE = dict(quick=300.0, thorough=1200.0)


def cases(tier, seed):
    names = [o.name for o in qops.catalogue()]
    out = []
    for dt in ("float32", "float16"):
        for i in range(0, len(names), 10):
            out.append(dict(kind="ops", dtype=dt, ops=names[i : i + 10]))
        out.append(dict(kind="lifecycle", dtype=dt))
    return out


MOVES = {"to-same-dtype", "to-cpu-copy", "detach", "clone", "clone-contiguous", "to-float16", "float()"}


def codes_of(q, read):
    from optimum.quanto.tensor import QBitsTensor

    if isinstance(q, QBitsTensor):
        return [read(q._data._data), read(q._zeropoint)], read(q._scale)
    return [read(q._data)], read(q._scale)


def run_case(case, res):
    import numpy as np

    from symt import api
    from symt.api import Session

    from optimum.quanto import freeze, quantize, quantize_activation, quantize_weight
    from optimum.quanto.tensor import QTensor

    dt = api.DT[case["dtype"]]
    if case["kind"] == "ops":
        cat = {o.name: o for o in qops.catalogue()}
        for name in case["ops"]:
            op = cat[name]
            for kind in op.states:
                with Session(res) as m:
                    q, sym = qops.make_state(kind, dt, m, "q")
                    o, osym = qops.second_operand(op, kind, q, dt, m)
                    try:
                        got = op.fn(q, o)
                    except api.Unsupported:
                        raise
                    except Exception:
                        continue  # raising is C05's clause
                    outs = [g for g in qops.flatten_results(got) if isinstance(g, QTensor)]
                    probs = [p for g in outs for p in qops.metadata_problems(g)]
                    cfg = f"{name} on {kind}"
                    res.side_ok("returned-tensor-metadata-matches-content", not probs, f"{cfg}: {probs[:2]}")
                    if probs:
                        res.side[-1]["replayed"] = True
                        res.candidate("meta:" + name, "side", dict(kind="op", op=name, state=kind, dtype=case["dtype"], q={k: api.enc_tensor(v.float() if v.dtype.is_floating_point and v.element_size() == 1 else v) for k, v in (dict(data=q._data, scale=q._scale) if q.qtype.bits == 8 else dict(data=q._data.unpack(), scale=q._scale, zp=q._zeropoint)).items()}), exact=True)
                    if name in MOVES and outs and not probs:
                        c0, s0 = codes_of(q, m.read)
                        c1, s1 = codes_of(outs[0], m.read)
                        same_codes = all(a.shape == b.shape and all(x is y for x, y in zip(a.reshape(-1), b.reshape(-1))) for a, b in zip(c0, c1))
                        if name in ("to-float16", "float()"):
                            tdt = outs[0].dtype
                            exp = [m.ctx.cast(x, tdt) for x in s0.reshape(-1)]
                            scale_ok = all(x is y for x, y in zip(exp, s1.reshape(-1)))
                        else:
                            scale_ok = all(x is y for x, y in zip(s0.reshape(-1), s1.reshape(-1)))
                        res.query("moves-keep-codes-and-change-only-scale-dtype", "ALG", "unsat" if same_codes and scale_ok else "sat", 0.0, sub=cfg, nvars=len(m.ctx.vars))
                        if not scale_ok and same_codes:
                            # the scale terms are not the plain dtype conversion: solve for a scale under which they really differ
                            try:
                                import z3

                                from symt import rerr

                                tdt = outs[0].dtype
                                exp_ = [m.ctx.cast(x, tdt) for x in s0.reshape(-1)] if name in ("to-float16", "float()") else list(s0.reshape(-1))
                                r = rerr.Rerr(m.ctx, ideal=True)
                                neq = [r.tr(a_) != r.tr(b_) for a_, b_ in zip(s1.reshape(-1), exp_) if a_ is not b_]
                                v, secs, mdl = api.solve(r.cons + [z3.Or(*neq)] + [r.tr(t) > 0 for t in s0.reshape(-1)], 30)
                                if v == "sat":
                                    sc = api.tensor_from_values(api.real_model_values(r, mdl, sym["scale"], torch.float64), tuple(q._scale.shape), q._scale.dtype)
                                    res.candidate("codes:" + name, "RERR-ideal", dict(kind="op", op=name, state=kind, dtype=case["dtype"], q=dict(data=api.enc_tensor(q._data), scale=api.enc_tensor(sc)), codes=True))
                            except NotImplementedError:
                                pass
                        if not (same_codes and scale_ok):
                            res.candidate("codes:" + name, "ALG", dict(kind="op", op=name, state=kind, dtype=case["dtype"], q={k: api.enc_tensor(v) for k, v in (dict(data=q._data, scale=q._scale) if q.qtype.bits == 8 else dict(data=q._data.unpack(), scale=q._scale, zp=q._zeropoint)).items()}, codes=True))
        return
    if case["kind"] == "lifecycle":
        # quantization entry points, odd packed shapes, state_dict round trip, freeze
        for qn in wq.QT8 + wq.QTB:
            q_t = wq.qt(qn)
            for shape, axis in (((5, 3), 0), ((3, 5), -1), ((2, 2, 3), 0), ((7,), 0) if q_t.bits < 8 else ((4, 2), 0)):
                w = torch.randn(shape).to(dt)
                with Session(res) as m:
                    m.symbolic(w, "w")
                    qw = quantize_weight(w, q_t, axis)
                    outs = [qw, qw.detach(), qw.to("cpu", copy=True)]
                    probs = [f"{i}: {p}" for i, g in enumerate(outs) for p in qops.metadata_problems(g)]
                res.side_ok("quantize_weight-and-moves-metadata", not probs, f"{qn} {shape} axis={axis}: {probs[:2]}")
                if probs:
                    res.side[-1]["replayed"] = True
                    res.candidate("meta:quantize_weight", "side", dict(kind="qw", qtype=qn, axis=axis, w=api.enc_tensor(w)), exact=True)
            if q_t.bits == 8:
                x = torch.randn(2, 3).to(dt)
                qa = quantize_activation(x, q_t, torch.tensor(0.05, dtype=dt))
                probs = qops.metadata_problems(qa)
                res.side_ok("quantize_activation-metadata", not probs, f"{qn}: {probs[:2]}")
            for kind in ("linear", "conv", "linear-wide"):
                if kind == "linear-wide" and q_t.bits == 8:
                    continue
                model, x = models.make(kind, dt)
                quantize(model, weights=q_t)
                freeze(model)
                sd = model.state_dict()
                tgt, _ = models.make(kind, dt, seed=77)
                quantize(tgt, weights=q_t)
                tgt.load_state_dict(sd)
                probs = []
                for mm in list(model.modules()) + list(tgt.modules()):
                    if hasattr(mm, "weight") and isinstance(mm.weight, QTensor):
                        probs += qops.metadata_problems(mm.weight)
                res.side_ok("frozen-and-reloaded-weights-metadata", not probs, f"{qn} {kind}: {probs[:2]}")
                if probs:
                    res.side[-1]["replayed"] = True
                    res.candidate("meta:freeze-reload", "side", dict(kind="reload", qtype=qn, model=kind, dtype=case["dtype"]), exact=True)
        return
    raise KeyError(case["kind"])


def replay(rec):
    from symt import api

    from optimum.quanto import freeze, quantize, quantize_weight
    from optimum.quanto.tensor import QTensor

    from .c05 import rebuild

    inp = rec["inputs"]
    if inp["kind"] == "op":
        dt = api.DT[inp["dtype"]]
        cat = {o.name: o for o in qops.catalogue()}
        op = cat[inp["op"]]
        q = rebuild(inp["state"], dt, inp["q"])
        o, _ = qops.second_operand(op, inp["state"], q, dt, None)
        got = op.fn(q, o)
        outs = [g for g in qops.flatten_results(got) if isinstance(g, QTensor)]
        probs = [p for g in outs for p in qops.metadata_problems(g)]
        if inp.get("codes") and outs:
            c0, s0 = codes_of(q, lambda t: t)
            c1, s1 = codes_of(outs[0], lambda t: t)
            if not all(torch.equal(a.view(torch.uint8) if a.element_size() == 1 else a, b.view(torch.uint8) if b.element_size() == 1 else b) for a, b in zip(c0, c1)):
                probs.append("codes changed by a move/copy")
            exp_s = s0.to(s1.dtype)
            if exp_s.shape != s1.shape or not torch.equal(exp_s, s1):
                probs.append(f"a move changed the scale values, not only their dtype: {s0.reshape(-1)[:3].tolist()} -> {s1.reshape(-1)[:3].tolist()}")
        key = None
        if probs and inp["op"] in ("split", "split-last", "chunk") and all("reports shape" in p or "payload shape" in p for p in probs):
            key = ["C06/split-reports-unsplit-size"]
        return bool(probs), f"{inp['op']} on {inp['state']}: " + "; ".join(probs[:3]) if probs else "metadata consistent", key
    if inp["kind"] == "qw":
        w = api.dec_tensor(inp["w"])
        qw = quantize_weight(w, wq.qt(inp["qtype"]), inp["axis"])
        probs = [p for g in (qw, qw.detach(), qw.to("cpu", copy=True)) for p in qops.metadata_problems(g)]
        return bool(probs), "; ".join(probs[:3]) or "ok", None
    if inp["kind"] == "reload":
        dt = api.DT[inp["dtype"]]
        model, x = models.make(inp["model"], dt)
        quantize(model, weights=wq.qt(inp["qtype"]))
        freeze(model)
        tgt, _ = models.make(inp["model"], dt, seed=77)
        quantize(tgt, weights=wq.qt(inp["qtype"]))
        tgt.load_state_dict(model.state_dict())
        probs = [p for mm in list(model.modules()) + list(tgt.modules()) if hasattr(mm, "weight") and isinstance(mm.weight, QTensor) for p in qops.metadata_problems(mm.weight)]
        return bool(probs), "; ".join(probs[:3]) or "ok", None
    raise KeyError(inp["kind"])
