"""C04 - Sub-byte packing is lossless, dense, and identical across unpack kernels (DESIGN.md section 6, C04)."""
import itertools

import torch

from . import wq

EVIDENCE = dict(
    bounds="bits in {2,4}; every byte value symbolic (BV8); leading dimension 1..40 (quick) / 1..130 (thorough) x trailing shapes of rank 0..3 with dims <= 3, contiguous, transposed and step-2 sliced; plus, for every integer literal L in 24..4096 that the current source of qbits/packed.py, library/python/unpack.py, library/ext/cpp/unpack.cpp, library/ext/cpp/__init__.py, library/ops.py uses as a possible size threshold, leading dimensions L-1, L, L+1, 2L-1, 2L+1 and kernel inputs of L+1 and 2L+1 bytes (none on the pinned tree); kernel agreement on arbitrary bytes for the python kernel, the C++ kernel compiled from /repo's unpack.cpp, and the routed op with extensions enabled / disabled / raising; call histories on every route: two tensors unpacked in turn, a returned result overwritten in place, the payload rewritten through .data, then unpacked again; ten operations on TWO packed tensors (torch.equal as a solver-flipped Boolean, eq/ne/lt/add/maximum/where, cat/stack) on equal shapes and on pairs of different unpacked shapes whose payloads have the same shape",
    outside="CUDA (unpack.cu) and MPS (unpack.mm) kernels; the mps-only branches of lshift/rshift; shapes beyond the bounds",
    assumptions=[
        "z3 bit-vector theory; transfer functions of the ATen ops listed under aten_ops_interpreted (validated bit-for-bit on every op under the seed)",
        "the compiled C++ kernel's at:: calls are observed through the Python dispatch mode (its own control flow is executed concretely)",
    ],
)
CASE_DEADLINE = dict(quick=240.0, thorough=900.0)

TRAILING = [(), (1,), (3,), (2, 3), (3, 1), (2, 1, 3), (1, 2, 2)]
OPS = ["add1", "eq3", "reshape", "index0", "sum", "to_uint8", "mul2", "flip", "t_contig", "clone", "slice0", "slice_last", "narrow0", "narrow_neg_first", "narrow_neg_last", "select_neg", "index_neg", "step_slice", "unsqueeze", "expand", "cat_self", "ne0", "gather_rows"]

THRESHOLD_FILES = ["optimum/quanto/tensor/qbits/packed.py", "optimum/quanto/library/python/unpack.py", "optimum/quanto/library/ext/cpp/unpack.cpp", "optimum/quanto/library/ext/cpp/__init__.py", "optimum/quanto/library/ops.py"]


def cases(tier, seed):
    rows = list(range(1, 41)) if tier == "quick" else list(range(1, 131))
    trailing = TRAILING[:5] if tier == "quick" else TRAILING
    out = []
    for bits in (2, 4):
        for chunk in range(0, len(rows), 5):
            out.append(dict(kind="roundtrip", bits=bits, rows=rows[chunk : chunk + 5], trailing=[list(t) for t in trailing]))
    for bits in (2, 4):
        shapes = [(1,), (3,), (4, 2), (5, 3), (2, 2, 3)] if tier == "quick" else [(1,), (2,), (3,), (7,), (4, 2), (5, 3), (9, 2), (2, 2, 3), (3, 1, 2, 2)]
        out.append(dict(kind="kernels", bits=bits, shapes=[list(s) for s in shapes]))
        out.append(dict(kind="history", bits=bits, shapes=[[3], [4, 2], [2, 2, 3]]))
        vpi = 8 // bits
        # operations on TWO packed tensors: equal shapes, and pairs of different unpacked shapes whose payloads have the same shape
        pairs = [[[3, 2], [3, 2]], [[vpi + 1], [2 * vpi]], [[1], [2]], [[vpi + 1, 2], [vpi + 2, 2]], [[2 * vpi - 1, 1, 2], [2 * vpi, 1, 2]]]
        out.append(dict(kind="binops", bits=bits, pairs=pairs))
        out.append(dict(kind="ops", bits=bits, shapes=[[5, 3], [4], [3, 2, 2]] if tier == "quick" else [[5, 3], [4], [3, 2, 2], [7, 2], [9], [8, 1, 2]]))
    # sizes derived from the integer thresholds of the current source of the packer and the unpack kernels (none on the pinned tree)
    for L, where in sorted(wq.size_thresholds(THRESHOLD_FILES, hi=4096).items()):
        extra = sorted({r for r in (L - 1, L, L + 1, 2 * L - 1, 2 * L + 1) if r > rows[-1]})
        for bits in (2, 4):
            out.append(dict(kind="roundtrip", bits=bits, rows=extra, trailing=[[], [1], [3]], threshold=f"{L} at {where[0]}"))
            out.append(dict(kind="kernels", bits=bits, shapes=[[r] for r in (L + 1, 2 * L + 1)] + [[L // 2 + 1, 2]], threshold=f"{L} at {where[0]}"))
    return out


def _layouts(shape):
    """(name, factory) pairs producing a uint8 tensor of the given shape with different strides"""
    yield "contiguous", lambda t: t
    if len(shape) >= 2:
        yield "transposed", lambda t: t.transpose(0, -1).contiguous().transpose(0, -1)
    yield "step2", lambda t: torch.stack([t, t], dim=-1).reshape(*t.shape[:-1], -1)[..., ::2] if t.ndim else t


def _mk(shape, bits, layout):
    t = torch.randint(0, 2**bits, tuple(shape), dtype=torch.uint8)
    return layout(t)


BINOPS = ["equal", "eq", "ne", "add", "maximum", "lt", "cat0", "cat_last", "stack", "where"]


def _apply_binop(name, a, b):
    if name == "equal":
        return torch.equal(a, b)
    if name == "eq":
        return a == b
    if name == "ne":
        return a != b
    if name == "add":
        return a + b
    if name == "maximum":
        return torch.maximum(a, b)
    if name == "lt":
        return a < b
    if name == "cat0":
        return torch.cat([a, b], 0)
    if name == "cat_last":
        return torch.cat([a, b], -1)
    if name == "stack":
        return torch.stack([a, b])
    if name == "where":
        return torch.where(a > 1, a, b)
    raise KeyError(name)


def _apply_op(name, t):
    if name == "add1":
        return t + 1
    if name == "eq3":
        return t == 3
    if name == "reshape":
        return t.reshape(-1)
    if name == "index0":
        return t[0]
    if name == "sum":
        return t.sum(dim=0)
    if name == "to_uint8":
        return t.to(torch.uint8)
    if name == "mul2":
        return t * 2
    if name == "flip":
        return torch.flip(t, [0])
    if name == "t_contig":
        return t.transpose(0, -1).contiguous()
    if name == "clone":
        return t.clone()
    if name == "slice0":
        return t[1:]
    if name == "slice_last":
        return t[..., :1]
    if name == "narrow0":
        return t.narrow(0, 1, t.shape[0] - 1)
    if name == "narrow_neg_first":
        return t.narrow(-t.ndim, 0, t.shape[0] - 1)
    if name == "narrow_neg_last":
        return t.narrow(-1, 0, 1)
    if name == "select_neg":
        return t.select(-t.ndim, t.shape[0] - 1)
    if name == "index_neg":
        return t[-1]
    if name == "step_slice":
        return t[::2]
    if name == "unsqueeze":
        return t.unsqueeze(0)
    if name == "expand":
        return t.unsqueeze(0).expand(2, *t.shape)
    if name == "cat_self":
        return torch.cat([t, t], 0)
    if name == "ne0":
        return t != 0
    if name == "gather_rows":
        return torch.index_select(t, 0, torch.tensor([t.shape[0] - 1, 0]))
    raise KeyError(name)


def run_case(case, res):
    import numpy as np
    import z3

    from symt import api, bit
    from symt.api import Session

    from optimum.quanto.library import disable_extensions
    from optimum.quanto.tensor.qbits.packed import PackedTensor

    bits = case["bits"]
    if case["kind"] == "roundtrip":
        for rows in case["rows"]:
            for tr in case["trailing"]:
                shape = (rows, *tr)
                for lname, layout in _layouts(shape):
                    t = _mk(shape, bits, layout)
                    with Session(res) as m:
                        X = m.symbolic(t, "x")
                        p = PackedTensor.pack(t, bits)
                        u = p.unpack()
                        U = m.read(u)
                        P = m.read(p._data)
                    cfg = dict(shape=list(shape), layout=lname)
                    exp_rows = -(-rows * bits // 8)
                    res.side_ok("payload-dense", type(p._data) is torch.Tensor and p._data.dtype == torch.uint8 and tuple(p._data.shape) == (exp_rows, *tr) and tuple(u.shape) == shape and u.dtype == torch.uint8, f"{cfg} payload {tuple(p._data.shape)} {p._data.dtype}")
                    if not res.side[-1]["ok"]:
                        res.side[-1]["replayed"] = True
                        res.candidate("payload-dense", "side", dict(kind="roundtrip", bits=bits, t=api.enc_tensor(t), layout=lname), exact=True)
                    if tuple(u.shape) != shape:
                        continue
                    b = bit.Bit(m.ctx)
                    pre = [z3.ULT(b.tr(x), 2**bits) for x in X.reshape(-1)]
                    neq = [b.tr(a) != b.tr(c) for a, c in zip(U.reshape(-1), X.reshape(-1)) if a is not c]
                    if not neq:
                        res.query("roundtrip", "ALG", "unsat", 0.0, sub=str(cfg), note="identical terms")
                        continue
                    v, secs, model = api.solve(pre + [z3.Or(*neq)], 60)
                    res.query("roundtrip", "BIT", v, secs, sub=str(cfg), nvars=X.size)
                    if v == "sat":
                        vals = api.model_values(b, model, X)
                        res.candidate("roundtrip", "BIT", dict(kind="roundtrip", bits=bits, t=api.enc_tensor(api.tensor_from_values(vals, shape, torch.uint8)), layout=lname), exact=True)
                    # payload is a function of the inputs only through bit fields: every payload byte must depend on <= 8/bits inputs
                    # vacuity twin: the precondition alone is satisfiable
                if rows == case["rows"][0] and tr == case["trailing"][0]:
                    v, secs, _ = api.solve(pre, 10)
                    res.query("roundtrip-vacuity", "BIT", "unsat" if v == "sat" else "unknown", secs, sub=str(shape), symbolic=False, note="precondition satisfiable" if v == "sat" else "PRECONDITION UNSAT")
        return

    if case["kind"] == "kernels":
        from optimum.quanto.library.ext.cpp import ext

        from symt import cppext

        try:
            lib = cppext.load()
            built = True
        except Exception as e:  # noqa
            built = False
            res.query("kernel-agreement-cpp", "BIT", "unknown", 0.0, note=f"C++ kernel could not be built: {e}"[:300])
        for shape in case["shapes"]:
            shape = tuple(shape)
            for lname, layout in list(_layouts(shape))[:2]:
                t = layout(torch.randint(0, 256, shape, dtype=torch.uint8))
                outs = {}
                with Session(res) as m:
                    X = m.symbolic(t, "b")
                    outs["py"] = m.read(torch.ops.quanto_py.unpack(t, bits))
                    if built:
                        ext._lib = lib
                        outs["cpp"] = m.read(torch.ops.quanto_ext.unpack(t, bits))
                        outs["routed-ext"] = m.read(torch.ops.quanto.unpack(t, bits))
                    with disable_extensions():
                        outs["routed-disabled"] = m.read(torch.ops.quanto.unpack(t, bits))
                    ext._lib = cppext.Raising()
                    outs["routed-raising"] = m.read(torch.ops.quanto.unpack(t, bits))
                    ext._lib = lib if built else None
                b = bit.Bit(m.ctx)
                ref = outs["py"]
                # reference semantics (independent oracle): field i of byte j
                vpi = 8 // bits
                n0 = shape[0]
                ok_shape = all(o.shape == (n0 * vpi, *shape[1:]) for o in outs.values())
                res.side_ok("kernel-shapes", ok_shape, {k: o.shape for k, o in outs.items()})
                if not ok_shape:
                    res.side[-1]["replayed"] = True
                    res.candidate("kernel-agreement", "side", dict(kind="kernels", bits=bits, t=api.enc_tensor(t)), exact=True)
                    continue
                oracle = []
                Xz = np.vectorize(lambda x: b.tr(x), otypes=[object])(X)
                for i in range(vpi):
                    oracle.append(np.vectorize(lambda z: z3.LShR(z, bits * i) & (2**bits - 1), otypes=[object])(Xz))
                oracle = np.concatenate([o.reshape((n0, *shape[1:])) for o in oracle], axis=0)
                from symt import terms as tm_

                for name, o in outs.items():
                    if not tm_.support(list(o.reshape(-1))):
                        # the kernel did not go through ATen (e.g. raw pointer loops in the extension): its result carries no
                        # terms. The universal claim is then NOT decided; a concrete differential run over all 256 byte values
                        # still reports real disagreements
                        res.query("kernel-agreement", "BIT", "unknown", 0.0, sub=f"{name} {shape} {lname}: kernel not observable at the ATen boundary (taint lost)")
                        allb = layout(torch.arange(256, dtype=torch.uint8).repeat(-(-t.numel() // 256))[: t.numel()].reshape(shape).contiguous()) if lname == "contiguous" else layout(torch.arange(256, dtype=torch.uint8).repeat(-(-t.numel() // 256))[: t.numel()].reshape(shape))
                        res.candidate(f"kernel-agreement:{name}:{lname}", "concrete", dict(kind="kernels", bits=bits, route=name, layout=lname, t=api.enc_tensor(allb.contiguous())), exact=False, cap=2)
                        continue
                    neq = [b.tr(a) != e for a, e in zip(o.reshape(-1), oracle.reshape(-1))]
                    v, secs, model = api.solve([z3.Or(*neq)], 60)
                    res.query("kernel-agreement", "BIT", v, secs, sub=f"{name} {shape} {lname}", nvars=X.size)
                    if v == "sat":
                        vals = api.model_values(b, model, X)
                        res.candidate("kernel-agreement", "BIT", dict(kind="kernels", bits=bits, route=name, layout=lname, t=api.enc_tensor(api.tensor_from_values(vals, shape, torch.uint8))), exact=True)
        return

    if case["kind"] == "history":
        # results of earlier unpack calls must not be affected by later calls (no hidden shared workspace): two different
        # symbolic byte tensors of the same shape are unpacked one after the other on every route, both results are read at the end
        from optimum.quanto.library.ext.cpp import ext

        from symt import cppext

        try:
            lib = cppext.load()
        except Exception:
            lib = None
        vpi = 8 // bits
        for shape in case["shapes"]:
            shape = tuple(shape)
            t1 = torch.randint(0, 256, shape, dtype=torch.uint8)
            t2 = torch.randint(0, 256, shape, dtype=torch.uint8)
            routes = {"py": lambda t: torch.ops.quanto_py.unpack(t, bits), "routed": lambda t: torch.ops.quanto.unpack(t, bits)}
            for rname, fn in routes.items():
                for ext_state in ("raising", "built") if rname == "routed" and lib is not None else ("raising",):
                    ext._lib = cppext.Raising() if ext_state == "raising" else lib
                    t1, t2 = t1.clone(), t2.clone()  # fresh objects per session
                    with Session(res) as m:
                        X1, X2 = m.symbolic(t1, "a"), m.symbolic(t2, "b")
                        r1 = fn(t1)
                        r2 = fn(t2)
                        r3 = fn(t1)
                        R1, R2, R3 = m.read(r1), m.read(r2), m.read(r3)
                        # a returned result belongs to the caller: overwriting it must not change what the next call returns
                        r3.add_(1)
                        r4 = fn(t1)
                        R4 = m.read(r4)
                        # the payload rewritten through an alias that does not bump the version counter must be unpacked afresh
                        t1.data.copy_(t2)
                        r5 = fn(t1)
                        R5 = m.read(r5)
                    b = bit.Bit(m.ctx)

                    def oracle(X):
                        Xz = np.vectorize(lambda x: b.tr(x), otypes=[object])(X)
                        parts = [np.vectorize(lambda z, i=i: z3.LShR(z, bits * i) & (2**bits - 1), otypes=[object])(Xz) for i in range(vpi)]
                        return np.concatenate(parts, axis=0).reshape(-1)

                    O1, O2 = oracle(X1), oracle(X2)
                    neq = [b.tr(x) != o for x, o in zip(R1.reshape(-1), O1)] + [b.tr(x) != o for x, o in zip(R2.reshape(-1), O2)] + [b.tr(x) != o for x, o in zip(R3.reshape(-1), O1)]
                    neq += [b.tr(x) != o for x, o in zip(R4.reshape(-1), O1)] + [b.tr(x) != o for x, o in zip(R5.reshape(-1), O2)]
                    v, secs, model = api.solve([z3.Or(*neq)], 60)
                    res.query("earlier-results-unaffected-by-later-calls", "BIT", v, secs, sub=f"{rname}/{ext_state} {shape}", nvars=2 * t1.numel())
                    if v == "sat":
                        a_ = api.tensor_from_values(api.model_values(b, model, X1), shape, torch.uint8)
                        b_ = api.tensor_from_values(api.model_values(b, model, X2), shape, torch.uint8)
                        res.candidate("history", "BIT", dict(kind="history", bits=bits, route=rname, ext=ext_state, t=api.enc_tensor(a_), t2=api.enc_tensor(b_)), exact=True)
            ext._lib = lib
        return

    if case["kind"] == "binops":
        for sa, sb in case["pairs"]:
            ta = torch.randint(0, 2**bits, tuple(sa), dtype=torch.uint8)
            tb = torch.randint(0, 2**bits, tuple(sb), dtype=torch.uint8)
            if sa == sb:
                tb = ta.clone()  # seed on the 'equal' side: the other side is what the solver looks for
            for opname in BINOPS:
                cfg = f"{opname} {tuple(sa)} {tuple(sb)}"
                with Session(res) as m:
                    X, Y = m.symbolic(ta, "x"), m.symbolic(tb, "y")
                    pa, pb = PackedTensor.pack(ta, bits), PackedTensor.pack(tb, bits)
                    n0 = len(m.path)
                    try:
                        exp = _apply_binop(opname, ta, tb)
                    except Exception:
                        continue  # not a valid program on the unpacked tensors
                    pe = [c for c in m.path[n0:] if c[2] == "branch"]
                    n1 = len(m.path)
                    try:
                        got = _apply_binop(opname, pa, pb)
                    except Exception as e:  # noqa
                        res.side_ok("binop-on-packed-raises", False, f"{cfg}: {type(e).__name__}: {e}")
                        res.side[-1]["replayed"] = True
                        res.candidate("binop-on-packed", "side", dict(kind="binops", bits=bits, op=opname, t=api.enc_tensor(ta), t2=api.enc_tensor(tb)), exact=True)
                        continue
                    pg = [c for c in m.path[n1:] if c[2] == "branch"]
                    if isinstance(exp, bool):
                        E = G = None
                    else:
                        E = m.read(exp)
                        G = m.read(got if type(got) is torch.Tensor else got.unpack())
                b = bit.Bit(m.ctx)
                pre = [z3.ULT(b.tr(x), 2**bits) for x in list(X.reshape(-1)) + list(Y.reshape(-1))]
                if isinstance(exp, bool):
                    # a Python bool: a recorded branch condition over the operands, or a constant when no kernel compared values
                    ez = b.tr(pe[-1][0]) if pe else z3.BoolVal(exp)
                    gz = b.tr(pg[-1][0]) if pg else z3.BoolVal(bool(got))
                    neq = [ez != gz]
                else:
                    if got.shape != exp.shape or got.dtype != exp.dtype:
                        res.side_ok("binop-on-packed-meta", False, f"{cfg}: {got.shape}/{got.dtype} vs {exp.shape}/{exp.dtype}")
                        res.side[-1]["replayed"] = True
                        res.candidate("binop-on-packed", "side", dict(kind="binops", bits=bits, op=opname, t=api.enc_tensor(ta), t2=api.enc_tensor(tb)), exact=True)
                        continue
                    neq = [b.tr(a_) != b.tr(c_) for a_, c_ in zip(G.reshape(-1), E.reshape(-1)) if a_ is not c_]
                    if not neq:
                        res.query("binop-on-packed", "ALG", "unsat", 0.0, sub=cfg, note="identical terms")
                        continue
                v, secs, model = api.solve(pre + [z3.Or(*neq)], 60)
                res.query("binop-on-packed", "BIT", v, secs, sub=cfg, nvars=ta.numel() + tb.numel())
                if v == "sat":
                    va = api.tensor_from_values(api.model_values(b, model, X), tuple(sa), torch.uint8)
                    vb = api.tensor_from_values(api.model_values(b, model, Y), tuple(sb), torch.uint8)
                    res.candidate("binop-on-packed", "BIT", dict(kind="binops", bits=bits, op=opname, t=api.enc_tensor(va), t2=api.enc_tensor(vb)), exact=True)
        return

    if case["kind"] == "ops":
        for shape in case["shapes"]:
            shape = tuple(shape)
            t = torch.randint(0, 2**bits, shape, dtype=torch.uint8)
            for opname in OPS:
                with Session(res) as m:
                    X = m.symbolic(t, "x")
                    p = PackedTensor.pack(t, bits)
                    try:
                        exp = _apply_op(opname, t)
                    except Exception:
                        continue
                    E = m.read(exp)
                    try:
                        got = _apply_op(opname, p)
                    except Exception as e:  # noqa
                        res.side_ok("op-on-packed-raises", False, f"{opname} {shape}: {type(e).__name__}: {e}")
                        res.side[-1]["replayed"] = True
                        res.candidate("op-on-packed", "side", dict(kind="ops", bits=bits, op=opname, t=api.enc_tensor(t)), exact=True)
                        continue
                    G = m.read(got if type(got) is torch.Tensor else got.unpack())
                    # detach / same-dtype moves keep the payload
                    d = p.detach()
                    same_payload = all(a is c for a, c in zip(m.read(d._data).reshape(-1), m.read(p._data).reshape(-1)))
                res.side_ok("op-on-packed-meta", got.shape == exp.shape and got.dtype == exp.dtype and type(d) is PackedTensor and same_payload, f"{opname} {shape}")
                if got.shape != exp.shape:
                    res.side[-1]["replayed"] = True
                    res.candidate("op-on-packed", "side", dict(kind="ops", bits=bits, op=opname, t=api.enc_tensor(t)), exact=True)
                    continue
                b = bit.Bit(m.ctx)
                pre = [z3.ULT(b.tr(x), 2**bits) for x in X.reshape(-1)]
                neq = [b.tr(a) != b.tr(c) for a, c in zip(G.reshape(-1), E.reshape(-1)) if a is not c]
                if not neq:
                    res.query("op-on-packed", "ALG", "unsat", 0.0, sub=f"{opname} {shape}", note="identical terms")
                    continue
                v, secs, model = api.solve(pre + [z3.Or(*neq)], 60)
                res.query("op-on-packed", "BIT", v, secs, sub=f"{opname} {shape}")
                if v == "sat":
                    vals = api.model_values(b, model, X)
                    res.candidate("op-on-packed", "BIT", dict(kind="ops", bits=bits, op=opname, t=api.enc_tensor(api.tensor_from_values(vals, shape, torch.uint8))), exact=True)


def replay(rec):
    from symt import api

    from optimum.quanto.library import disable_extensions
    from optimum.quanto.tensor.qbits.packed import PackedTensor

    inp = rec["inputs"]
    bits = inp["bits"]
    t = api.dec_tensor(inp["t"])
    if inp["kind"] == "roundtrip":
        layout = dict(_layouts(tuple(t.shape)))[inp.get("layout", "contiguous")]
        t = layout(t)
        p = PackedTensor.pack(t, bits)
        u = p.unpack()
        exp_rows = -(-t.shape[0] * bits // 8)
        dense = type(p._data) is torch.Tensor and p._data.dtype == torch.uint8 and tuple(p._data.shape) == (exp_rows, *t.shape[1:])
        ok = dense and u.shape == t.shape and torch.equal(u, t)
        return (not ok), f"pack/unpack bits={bits} shape={tuple(t.shape)} payload={tuple(p._data.shape)} dense={dense}\n in ={t.tolist()}\n out={u.tolist()}", None
    if inp["kind"] == "kernels":
        from optimum.quanto.library.ext.cpp import ext

        from symt import cppext

        if inp.get("layout", "contiguous") != "contiguous":
            t = dict(_layouts(tuple(t.shape)))[inp["layout"]](t)
        vpi = 8 // bits
        oracle = torch.cat([(t >> (bits * i)) & (2**bits - 1) for i in range(vpi)])
        outs = {"py": torch.ops.quanto_py.unpack(t, bits)}
        try:
            ext._lib = cppext.load()
            outs["cpp"] = torch.ops.quanto_ext.unpack(t, bits)
            outs["routed-ext"] = torch.ops.quanto.unpack(t, bits)
        except Exception as e:  # noqa
            outs["cpp-build-error"] = oracle
        with disable_extensions():
            outs["routed-disabled"] = torch.ops.quanto.unpack(t, bits)
        ext._lib = cppext.Raising()
        outs["routed-raising"] = torch.ops.quanto.unpack(t, bits)
        bad = {k: v.tolist() for k, v in outs.items() if v.shape != oracle.shape or not torch.equal(v, oracle)}
        return bool(bad), f"unpack kernels on bytes {t.tolist()} bits={bits}: expected {oracle.tolist()} deviating: {bad}", None
    if inp["kind"] == "history":
        from optimum.quanto.library.ext.cpp import ext

        from symt import cppext

        t2 = api.dec_tensor(inp["t2"])
        ext._lib = cppext.Raising() if inp["ext"] == "raising" else cppext.load()
        fn = (lambda x: torch.ops.quanto_py.unpack(x, bits)) if inp["route"] == "py" else (lambda x: torch.ops.quanto.unpack(x, bits))
        vpi = 8 // bits
        orc = lambda x: torch.cat([(x >> (bits * i)) & (2**bits - 1) for i in range(vpi)])  # noqa
        r1 = fn(t)
        r2 = fn(t2)
        r3 = fn(t)
        bad = not (torch.equal(r1, orc(t)) and torch.equal(r2, orc(t2)) and torch.equal(r3, orc(t)))
        exp1 = orc(t)
        r3.add_(1)
        r4 = fn(t)
        if not torch.equal(r4, exp1):
            return True, f"unpack({t.tolist()}), add 1 to the result in place, unpack again: {r4.tolist()}, expected {exp1.tolist()}", None
        t.data.copy_(t2)
        r5 = fn(t)
        if not torch.equal(r5, orc(t2)):
            return True, f"payload overwritten through .data with {t2.tolist()}: unpack returns {r5.tolist()}, expected {orc(t2).tolist()}", None
        pa, pb = PackedTensor.pack(orc(t)[: t.shape[0]] % (2**bits), bits), PackedTensor.pack(orc(t2)[: t.shape[0]] % (2**bits), bits)
        return bad, f"unpack({t.tolist()}) then unpack({t2.tolist()}): first result now {r1.tolist()}, expected {orc(t).tolist()}", None
    if inp["kind"] == "ops":
        p = PackedTensor.pack(t, bits)
        exp = _apply_op(inp["op"], t)
        try:
            got = _apply_op(inp["op"], p)
        except Exception as e:  # noqa
            return True, f"{inp['op']} on packed tensor raised {type(e).__name__}: {e}", None
        if type(got) is not torch.Tensor:
            got = got.unpack()
        ok = got.shape == exp.shape and got.dtype == exp.dtype and torch.equal(got, exp)
        return (not ok), f"op {inp['op']} on packed {t.tolist()}: expected {exp.tolist()} got {got.tolist()}", None
    if inp["kind"] == "binops":
        t2 = api.dec_tensor(inp["t2"])
        pa, pb = PackedTensor.pack(t, bits), PackedTensor.pack(t2, bits)
        exp = _apply_binop(inp["op"], t, t2)
        try:
            got = _apply_binop(inp["op"], pa, pb)
        except Exception as e:  # noqa
            return True, f"{inp['op']} on two packed tensors raised {type(e).__name__}: {e}", None
        if isinstance(exp, bool):
            return (bool(got) != exp), f"{inp['op']} on packed {t.tolist()} and {t2.tolist()}: expected {exp} got {got}", None
        if type(got) is not torch.Tensor:
            got = got.unpack()
        ok = got.shape == exp.shape and got.dtype == exp.dtype and torch.equal(got, exp)
        return (not ok), f"op {inp['op']} on packed {t.tolist()}, {t2.tolist()}: expected {exp.tolist()} got {got.tolist()}", None
    raise KeyError(inp["kind"])
