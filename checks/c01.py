"""C01 - 8-bit symmetric quantization is a nearest-grid-point projection (DESIGN.md section 6, C01)."""
import itertools
from fractions import Fraction

import torch

EVIDENCE = dict(
    bounds="scalar kernel: every finite x and every finite positive scale whose grid {s*v} is representable in the working dtype (s*max|v| finite; for float8 additionally s*min_subnormal8 >= 2 ulp_min(dtype) in the re-quantization clause), dtypes float16/bfloat16/float32, qtypes qint8/qfloat8_e4m3fn/qfloat8_e5m2; float8 nearest-grid clause split over every binade of the 8-bit format; tensor plumbing: shapes of rank 1..4 with dims <= 3 (covering subset in quick), contiguous/transposed/step-2, axis in {None,0,-1}; conversion chain (BIT, float8 qtypes): every finite value of the working dtype inside the float8 range as the quotient fl(x/s)",
    outside="shapes beyond rank 4 / dim 3 other than those derived from integer size thresholds (24..512) found in the current quantizer/optimizer source; CUDA/MPS kernels; scales whose grid is not representable in the working dtype (no implementation can return those grid points); bfloat16 re-quantization (excluded by the property); float32 bit-exact (BIT) re-quantization - float32 is carried by RERR",
    assumptions=[
        "RERR: standard model of IEEE arithmetic (|e|<=2^-p relative, |d|<=2^(emin-p) absolute per operation); unsat is a proof for all executions without overflow, overflow is covered by the BIT saturation/finiteness clauses",
        "the PyTorch float->float8 cast returns a nearest grid point of its input (validated on every executed cast under the seed and exhaustively against torch for all 2^16 float16 and bfloat16 inputs by symt/conformance.py in every run)",
        "compositional step for tensors: the per-element term equals the scalar kernel's term (term identity after substitution), so the scalar clauses transfer to every element",
    ],
)
CASE_DEADLINE = dict(quick=240.0, thorough=1500.0)
QT = ["qint8", "qfloat8_e4m3fn", "qfloat8_e5m2"]


def _qt(name):
    import optimum.quanto as oq

    return getattr(oq, name)


def _shapes(tier):
    dims = (1, 2, 3)
    allsh = [s for r in (1, 2, 3, 4) for s in itertools.product(dims, repeat=r)]
    if tier == "thorough":
        return allsh
    # covering subset: every rank, unit and non-unit dimension in every position
    cov = [(1,), (3,), (2, 3), (3, 1), (1, 2), (2, 2), (3, 3), (2, 3, 2), (2, 2, 2), (1, 3, 2), (3, 2, 1), (2, 1, 3, 2), (3, 2, 2, 1), (1, 2, 2, 3), (2, 2, 1, 2)]
    return cov


def cases(tier, seed):
    out = []
    for dt in ("float16", "bfloat16", "float32"):
        for q in QT:
            out.append(dict(kind="scalar", dtype=dt, qtype=q, tier=tier))
    for dt in ("float16", "float32"):
        for q in QT:
            out.append(dict(kind="requant", dtype=dt, qtype=q, tier=tier))
    out.append(dict(kind="conformance"))
    shapes = _shapes(tier)
    # shapes just above the integer size thresholds of the CURRENT quantizer source (empty on the pinned tree): a blocked, chunked
    # or fast path that starts beyond the default bounds is entered as well
    from . import wq

    shapes = list(shapes) + [s for s in wq.quantizer_threshold_shapes(hi=512) if s not in shapes]
    n = 4 if tier == "quick" else 9
    for dt in ("float16", "bfloat16", "float32") if tier == "thorough" else ("float16", "float32"):
        for q in QT:
            for i in range(0, len(shapes), n):
                out.append(dict(kind="plumb", dtype=dt, qtype=q, shapes=[list(s) for s in shapes[i : i + n]]))
    return out


# ------------------------------------------------------------------------------------------------ helpers
def _layouts(shape):
    yield "contiguous", lambda t: t
    if len(shape) >= 2:
        yield "transposed", lambda t: t.transpose(0, -1).contiguous().transpose(0, -1)
    yield "step2", lambda t: torch.stack([t, t], dim=-1).reshape(*t.shape[:-1], -1)[..., ::2]


def _scale_shape(shape, axis):
    if axis is None:
        return ()
    s = [1] * len(shape)
    s[axis] = shape[axis]
    return tuple(s)


def grid_values(qtype_name):
    """all finite values of the 8-bit type, as Fractions"""
    qt = _qt(qtype_name)
    if not qt.is_floating_point:
        return [Fraction(v) for v in range(-128, 128)]
    codes = torch.arange(256, dtype=torch.uint8).view(qt.dtype).to(torch.float32)
    return sorted({Fraction(float(v)) for v in codes.tolist() if v == v and abs(v) != float("inf")})


def fmt(dtype):
    from symt import terms as tm

    return tm.FMT[dtype]


ENTRY = ["quantizer"]  # which public entry point the oracles drive: SymmetricQuantizer.apply or quantize_activation (per-tensor)


def _quantize(x, qt, axis, scale):
    from optimum.quanto import quantize_activation
    from optimum.quanto.tensor.quantizers import SymmetricQuantizer

    if ENTRY[0] == "activation":
        return quantize_activation(x, qt, scale)
    return SymmetricQuantizer.apply(x, qt, axis, scale)


def oracle(x, scale, qtype_name, axis, check_requant=True):
    """exact-rational evaluation of C01 on plain quanto for concrete inputs; returns list of problems"""
    from optimum.quanto.tensor.quantizers import SymmetricQuantizer

    qt = _qt(qtype_name)
    dtype = x.dtype
    f = fmt(dtype)
    u = Fraction(1, 2 ** f["p"])
    eta = Fraction(2) ** (f["emin"] - f["p"])
    q = _quantize(x, qt, axis, scale)
    d = q.dequantize()
    probs = []
    if tuple(q.shape) != tuple(x.shape) or q.dtype != scale.dtype or tuple(d.shape) != tuple(x.shape) or tuple(q._data.shape) != tuple(x.shape) or q._data.dtype != qt.dtype:
        probs.append(f"metadata: q.shape={tuple(q.shape)} q.dtype={q.dtype} data={tuple(q._data.shape)} {q._data.dtype}")
        return probs
    grid = grid_values(qtype_name)
    gmax = max(abs(g) for g in grid)
    gmin = min(abs(g) for g in grid if g != 0)
    sb = scale.expand(x.shape) if scale.ndim else scale.expand(x.shape)
    xs, ss, ds = x.double().reshape(-1).tolist(), sb.double().reshape(-1).tolist(), d.double().reshape(-1).tolist()
    for i, (xv, sv, dv) in enumerate(zip(xs, ss, ds)):
        if not (sv > 0) or sv != sv or abs(xv) == float("inf") or xv != xv:
            continue
        S, X = Fraction(sv), Fraction(xv)
        if S * gmax > Fraction(f["fmax"]):
            continue  # grid end points not representable: outside the claim
        if dv != dv or abs(dv) == float("inf"):
            probs.append(f"element {i}: x={xv} scale={sv} dequantizes to {dv}")
            continue
        D = Fraction(dv)
        best = min(abs(S * g - X) for g in grid)
        tol = 4 * u * max(abs(X), abs(D)) + 4 * eta * (1 + S) + 2 * u * S
        if abs(D - X) > best + tol:
            probs.append(f"element {i}: x={xv} scale={sv}: dequantized {dv} is at distance {float(abs(D-X)):.6g} but the nearest grid point is at {float(best):.6g} (tol {float(tol):.3g})")
    if check_requant and dtype in (torch.float16, torch.float32) and not probs:
        ok_scale = all(Fraction(sv) * gmax <= Fraction(f["fmax"]) and Fraction(sv) * gmin >= 2 * Fraction(f["fmin_sub"]) for sv in ss if sv > 0)
        if ok_scale and torch.isfinite(d).all():
            q2 = _quantize(d, qt, axis, scale)
            a, b = q._data.to(torch.float32), q2._data.to(torch.float32)
            if not torch.equal(a, b):
                idx = (a != b).nonzero()[0].tolist()
                probs.append(f"requantization changes codes at {idx}: {a[tuple(idx)].item()} -> {b[tuple(idx)].item()}")
    return probs


def saturation_oracle(x, scale, qtype_name, axis):
    """exact clauses: an element whose quotient fl(x/s) (computed by torch, not quanto) is beyond the grid must get
    the end-point code; float8 codes are never NaN; finite when the grid end points are representable"""
    from optimum.quanto.tensor.quantizers import SymmetricQuantizer

    qt = _qt(qtype_name)
    q = _quantize(x, qt, axis, scale)
    quo = (x / scale).double().reshape(-1).tolist()
    codes = q._data.to(torch.float64).reshape(-1).tolist()
    deq = q.dequantize().double().reshape(-1).tolist()
    info = torch.finfo(qt.dtype) if qt.is_floating_point else torch.iinfo(qt.dtype)
    f = fmt(x.dtype)
    sb = scale.expand(x.shape).double().reshape(-1).tolist()
    probs = []
    for i, (qv, cv, dv, sv) in enumerate(zip(quo, codes, deq, sb)):
        if qv != qv or not sv > 0:
            continue
        if qv >= info.max and cv != info.max:
            probs.append(f"element {i}: fl(x/s)={qv} >= qmax but code is {cv}, not {info.max} (wrap / missing saturation)")
        if qv <= info.min and cv != info.min:
            probs.append(f"element {i}: fl(x/s)={qv} <= qmin but code is {cv}, not {info.min} (wrap / missing saturation)")
        if cv != cv:
            probs.append(f"element {i}: NaN code")
        if Fraction(sv) * max(abs(info.max), abs(info.min)) <= Fraction(f["fmax"]) and (dv != dv or abs(dv) == float("inf")):
            probs.append(f"element {i}: dequantizes to {dv} although the grid end points are representable")
    return probs


def _mk_inputs(shape, axis, dtype, layout):
    x = layout((torch.randn(shape, dtype=torch.float32) * 3).to(dtype))
    sshape = _scale_shape(shape, axis)
    s = (torch.rand(sshape, dtype=torch.float32) * 0.05 + 0.01).to(dtype)
    return x, s


# ------------------------------------------------------------------------------------------------ cases
def run_case(case, res):
    import z3

    from symt import api, bit, rerr
    from symt import terms as tm
    from symt.api import Session
    from symt.rerr import rv, zabs

    from optimum.quanto import quantize_activation
    from optimum.quanto.tensor.quantizers import SymmetricQuantizer

    if case["kind"] == "conformance":
        from symt import conformance

        n, bad = conformance.evaluator_sweep(True)
        res.side_ok("evaluator-conforms-to-torch-kernels", not bad, f"{n} values: float8 casts for all 2^16 float16 and bfloat16 inputs, float->int casts, + - * / round on boundary values; mismatches {bad[:3]}")
        n2, bad2 = conformance.bit_sweep()
        res.side_ok("bit-float8-encoding-conforms-to-evaluator", not bad2, f"{n2} boundary values; mismatches {bad2[:3]}")
        if bad or bad2:
            raise api.ModelMismatch(f"conformance sweep failed: {bad[:3]} {bad2[:3]}")
        return
    dt = api.DT[case["dtype"]]
    qt = _qt(case["qtype"])
    f = tm.FMT[dt]
    u = Fraction(1, 2 ** f["p"])
    eta = Fraction(2) ** (f["emin"] - f["p"])
    isint = not qt.is_floating_point
    f8 = None if isint else tm.FMT[qt.dtype]
    qmax = 127.0 if isint else f8["fmax"]
    qmin = -128.0 if isint else -f8["fmax"]
    fin = lambda e: z3.Not(z3.Or(z3.fpIsNaN(e), z3.fpIsInf(e)))  # noqa

    def enc(xv, sv, axis=None):
        return dict(x=api.enc_tensor(xv), scale=api.enc_tensor(sv), qtype=case["qtype"], axis=axis)

    if case["kind"] == "scalar":
        x = torch.tensor([0.37], dtype=dt)
        s = torch.tensor(0.011, dtype=dt)
        with Session(res) as m:
            X = m.symbolic(x, "x")
            S = m.symbolic(s, "s")
            q = quantize_activation(x, qt, s)
            C = m.read(q._data)
            D = m.read(q.dequantize())
        ctx = m.ctx
        # ---------------- BIT: saturation, no wrap, no NaN code, cast in range, finite result
        b = bit.Bit(ctx)
        xz, sz, cz, dz = b.tr(X[0]), b.tr(S[()]), b.tr(C[0]), b.tr(D[0])
        srt = xz.sort()
        pre = [fin(xz), fin(sz), z3.fpGT(sz, z3.FPVal(0, srt))] + b.side
        d = z3.fpDiv(z3.RNE(), xz, sz)
        if isint:
            hi = z3.And(z3.fpGEQ(d, z3.FPVal(127, srt)), cz != 127)
            lo = z3.And(z3.fpLEQ(d, z3.FPVal(-128, srt)), cz != z3.BitVecVal(-128, 8))
        else:
            hi = z3.And(z3.fpGEQ(d, z3.FPVal(qmax, srt)), z3.Not(z3.fpEQ(cz, z3.FPVal(qmax, cz.sort()))))
            lo = z3.And(z3.fpLEQ(d, z3.FPVal(qmin, srt)), z3.Not(z3.fpEQ(cz, z3.FPVal(qmin, cz.sort()))))
        endp = z3.And(fin(z3.fpMul(z3.RNE(), sz, z3.FPVal(qmax, srt))), fin(z3.fpMul(z3.RNE(), sz, z3.FPVal(qmin, srt))))
        clauses = [("saturate-high", hi), ("saturate-low", lo), ("finite-when-grid-representable", z3.And(endp, z3.Not(fin(dz))))]
        if not isint:
            clauses.append(("code-not-nan", z3.fpIsNaN(cz)))
        # RERR knows no overflow: inside the grid (|fl(x/s)| <= qmax+1) no intermediate float value of the real
        # computation may be NaN/Inf (discharges the overflow obligations of the RERR clauses below)
        inter = [t for t in tm.topo([C[0], D[0]]) if tm.is_float(t.dt) and t.op not in ("const", "var")]
        inside = z3.And(z3.fpLEQ(z3.fpAbs(d), z3.FPVal(abs(qmin) + 1.0, srt)), endp)
        clauses.append(("no-intermediate-overflow-inside-grid", z3.And(inside, z3.Or(*[z3.Not(fin(b.tr(t))) for t in inter]))))
        for arg, cdt in ctx.cast_obligations:
            if tm.is_float(arg.dt) and cdt in tm.INTS:
                az = b.tr(arg)
                bits, signed = tm.INTS[cdt]
                lo_i, hi_i = (-(2 ** (bits - 1)), 2 ** (bits - 1) - 1) if signed else (0, 2**bits - 1)
                clauses.append((f"cast-in-range-{api.dtn(cdt)}", z3.Or(z3.fpIsNaN(az), z3.fpLT(az, z3.FPVal(lo_i, az.sort())), z3.fpGT(az, z3.FPVal(hi_i, az.sort())))))
        for name, neg in clauses:
            v, secs, model = api.solve(pre + [neg], 120)
            res.query(name, "BIT", v, secs)
            if v == "sat":
                xv, sv = api.model_values(b, model, X), api.model_values(b, model, S)
                res.candidate(name, "BIT", enc(api.tensor_from_values(xv, (1,), dt), api.tensor_from_values(sv, (), dt)), exact=not name.startswith(("cast-in-range", "no-intermediate")))
        if not isint:
            # conversion chain, bit-exact: cut the quotient fl(x/s) to a free value v of the working dtype; whatever the code does
            # after the division (clamp, casts) must land on a float8 value that is as close to v as the single correctly rounded
            # conversion (decides what RERR cannot: RERR's cast contract is per cast, so a double rounding through a narrower
            # float type is an abstract counterexample there and a concrete one here)
            quos = api.find_nodes([C[0]], lambda t: t.op == "div")
            if len(quos) == 1:
                (cq,), qmap, _ = api.cut(ctx, [C[0]], quos, "quo")
                b2 = bit.Bit(ctx)
                vz, c8 = b2.tr(qmap[quos[0].uid]), b2.tr(cq)
                f64 = z3.FPSort(11, 53)
                up = lambda e: z3.fpToFP(z3.RNE(), e, f64)  # noqa
                n8 = bit.to_f8(vz, vz.sort(), qt.dtype)
                dist = lambda e: z3.fpAbs(z3.fpSub(z3.RNE(), up(e), up(vz)))  # noqa  (exact in float64)
                tolz = z3.fpAdd(z3.RNE(), z3.fpMul(z3.RNE(), z3.FPVal(float(16 * u), f64), z3.fpAbs(up(vz))), z3.FPVal(float(8 * u + 32 * eta), f64))
                goal = z3.fpGT(dist(c8), z3.fpAdd(z3.RNE(), dist(n8), tolz))
                v, secs, model = api.solve(b2.side + [fin(vz), z3.fpLEQ(z3.fpAbs(vz), z3.FPVal(qmax, vz.sort())), goal], 120)
                res.query("conversion-chain-is-one-nearest-rounding", "BIT", v, secs, sub="quotient cut to a free value of the working dtype")
                if v == "sat":
                    qv = api.model_values(b2, model, [qmap[quos[0].uid]])
                    res.candidate("conversion-chain-is-one-nearest-rounding", "BIT", enc(api.tensor_from_values(qv, (1,), dt), torch.tensor(1.0, dtype=dt)), exact=True)
            else:
                res.query("conversion-chain-is-one-nearest-rounding", "BIT", "unknown", 0.0, note=f"{len(quos)} divisions found in the code's term")
        v, secs, _ = api.solve(pre + [z3.fpGEQ(d, z3.FPVal(qmax, srt))], 30)
        res.query("vacuity-saturating-region-reachable", "BIT", "unsat" if v == "sat" else "unknown", secs, symbolic=False)
        # BIT back end vs evaluator on the seed
        for t in (C[0], D[0]):
            ev = b.eval_seed(t)
            ok = (z3.is_true(z3.simplify(ev == bit.const_of(t.cv, t.dt if t.dt not in (tm.E4M3, tm.E5M2) else tm.F32))) or str(ev) == str(bit.const_of(t.cv, t.dt if t.dt not in (tm.E4M3, tm.E5M2) else tm.F32)))
            res.side_ok("bit-backend-agrees-with-evaluator-on-seed", ok, f"{ev} vs {t.cv}")
            if not ok:
                raise api.ModelMismatch(f"BIT back end disagrees with evaluator: {ev} vs {t.cv}")
        # ---------------- RERR: nearest grid point
        r = rerr.Rerr(ctx)
        xr, sr, cr, dr = r.tr(X[0]), r.tr(S[()]), r.tr(C[0]), r.tr(D[0])
        base = r.cons + [sr > 0]

        def ask(name, extra, goal, sub):
            v, secs, model = api.solve(base + extra + [goal], 60)
            res.query(name, "RERR", v, secs, sub=sub)
            if v == "sat":
                xv, sv = api.real_model_values(r, model, X, dt), api.real_model_values(r, model, S, dt)
                res.candidate(name, "RERR", enc(api.tensor_from_values(xv, (1,), dt), api.tensor_from_values(sv, (), dt)))

        # (i) the dequantized value is the grid point of its code
        for gi, g in enumerate((dr - sr * cr, sr * cr - dr)):
            ask("dequantized-is-grid-point-of-code", [], g > rv(u) * sr * zabs(cr) + rv(eta), f"side{gi}")
        # (ii) nearest: within half a step of the original inside the hull of the grid
        if isint:
            for sign in (1, -1):
                hull = [xr >= 0, xr <= 127 * sr] if sign > 0 else [xr <= 0, xr >= -128 * sr]
                ax = xr if sign > 0 else -xr
                tol = rv(4 * u) * ax + rv(2 * u) * sr + rv(4 * eta) + rv(4 * eta) * sr
                for gi, g in enumerate((dr - xr, xr - dr)):
                    ask("nearest-grid-point", hull, g > sr / 2 + tol, f"sign{sign} side{gi}")
        else:
            p8, emin8, emax8 = f8["p"], f8["emin"], f8["emax"]
            for E in [None] + list(range(emin8, emax8 + 1)):
                for sign in (1, -1):
                    ax = xr if sign > 0 else -xr
                    if E is None:
                        reg = [ax >= 0, ax < rv(Fraction(2) ** emin8) * sr]
                        half = rv(Fraction(2) ** (emin8 - p8))
                    else:
                        reg = [ax >= rv(Fraction(2) ** E) * sr, ax < rv(Fraction(2) ** (E + 1)) * sr, ax <= rv(f8["fmax"]) * sr]
                        half = rv(Fraction(2) ** (E - p8))
                    tol = rv(4 * u) * ax + rv(2 * u) * sr * half + rv(4 * eta) + rv(4 * eta) * sr
                    for gi, g in enumerate((dr - xr, xr - dr)):
                        ask("nearest-grid-point", reg, g > sr * half + tol, f"binade{E} sign{sign} side{gi}")
        # obligations of the RERR run that are not overflow-related must hold (overflow is BIT's job)
        for kind, ob, t in r.oblig:
            if kind in ("castrange", "f8range", "intwrap", "intexact"):
                v, secs, _ = api.solve(base + [z3.Not(ob)], 30)
                res.query(f"rerr-obligation-{kind}", "RERR", v, secs)
        v, secs, _ = api.solve(base + [xr >= 0, xr <= sr], 10)
        res.query("vacuity-rerr-precondition", "RERR", "unsat" if v == "sat" else "unknown", secs, symbolic=False)
        return

    if case["kind"] == "requant":
        x = torch.tensor([0.37], dtype=dt)
        s = torch.tensor(0.011, dtype=dt)
        with Session(res) as m:
            X = m.symbolic(x, "x")
            S = m.symbolic(s, "s")
            q = quantize_activation(x, qt, s)
            C = m.read(q._data)
            dq = q.dequantize()
            q2 = quantize_activation(dq, qt, s)
            C2 = m.read(q2._data)
        ctx = m.ctx
        # start from an ARBITRARY valid code (cut at the first code): idempotence for every code, every scale
        (c2,), mapping, back = api.cut(ctx, [C2[0]], [C[0]], "code")
        cvar = mapping[C[0].uid]
        lowmul = 1.0 if isint else f8["fmin_sub"]

        def replay_inputs(code_val, s_val):
            # an input whose first quantization gives this code: x = s*code (approximately); the oracle re-checks
            return enc(torch.tensor([float(code_val) * float(s_val)], dtype=torch.float64).to(dt), api.tensor_from_values([s_val], (), dt))

        if dt == torch.float16 and case["tier"] == "thorough":
            b = bit.Bit(ctx)
            c2z, cz, sz = b.tr(c2), b.tr(cvar), b.tr(S[()])
            srt = sz.sort()
            endp = z3.And(fin(z3.fpMul(z3.RNE(), sz, z3.FPVal(qmax, srt))), fin(z3.fpMul(z3.RNE(), sz, z3.FPVal(qmin, srt))))
            pre = b.side + [fin(sz), z3.fpGT(sz, z3.FPVal(0, srt)), endp]
            if isint:
                neq = c2z != cz
            else:
                pre += [fin(cz), z3.fpGEQ(z3.fpMul(z3.RNE(), sz, z3.FPVal(lowmul, srt)), z3.FPVal(2 * f["fmin_sub"], srt))]
                neq = z3.Not(z3.fpEQ(c2z, cz))
            v, secs, model = api.solve(pre + [neq], 600 if case["tier"] == "thorough" else 100)
            res.query("requantize-idempotent", "BIT", v, secs)
            if v == "sat":
                cv = bit.z3_value(model.eval(cz, model_completion=True), torch.int8 if isint else torch.float32)
                sv = api.model_values(b, model, S)[0]
                res.candidate("requantize-idempotent", "BIT", replay_inputs(cv, sv), exact=False)
            v, secs, _ = api.solve(pre, 30)
            res.query("vacuity-requant-precondition", "BIT", "unsat" if v == "sat" else "unknown", secs, symbolic=False)
        # RERR two-lemma argument (carries float32; also run for float16)
        rounds = api.find_nodes([c2], lambda t: t.op == "round")
        r = rerr.Rerr(ctx, int_round=not isint)
        sr = r.tr(S[()])
        # RERR's absolute error term is independent of the operands, so scales within a few ulps of the smallest
        # subnormal are left to the BIT query (float16, thorough tier); stated in the evidence bounds
        base_pre = [sr >= rv(8 * f["fmin_sub"]), sr * rv(abs(qmin)) <= rv(f["fmax"])]
        if isint:
            if len(rounds) != 1:
                res.query("requantize-idempotent", "RERR", "unknown", 0.0, note=f"expected one rounding node in the re-quantization chain, found {len(rounds)}")
                return
            y = rounds[0].args[0]
            yr, cr = r.tr(y), r.tr(cvar)
            # lemma A: the value that gets rounded is strictly within 1/2 of the code
            for gi, g in enumerate((yr - cr, cr - yr)):
                v, secs, model = api.solve(r.cons + base_pre + [g >= rv(Fraction(1, 2))], 60)
                res.query("requantize-idempotent", "RERR", v, secs, sub=f"lemmaA side{gi}")
                if v == "sat":
                    sv = api.real_model_values(r, model, S, dt)[0]
                    cvv = api.real_model_values(r, model, [cvar], torch.int8)[0]
                    res.candidate("requantize-idempotent", "RERR", replay_inputs(cvv, sv))
            # lemma B: integer c, |y-c|<1/2, round-to-nearest r of y => r == c ; then the rest of the chain maps c to c
            ci, yy, ri = z3.Int("c"), z3.Real("y"), z3.Int("r")
            v, secs, _ = api.solve([yy - ci < rv(Fraction(1, 2)), ci - yy < rv(Fraction(1, 2)), z3.ToReal(ri) - yy <= rv(Fraction(1, 2)), yy - z3.ToReal(ri) <= rv(Fraction(1, 2)), ri != ci], 30)
            res.query("requantize-idempotent", "LIA", v, secs, sub="lemmaB rounding of a near-integer", symbolic=False)
            (c2b,) = api.subst(ctx, [c2], {rounds[0].uid: ctx.cast(cvar, rounds[0].dt)})
            r2 = rerr.Rerr(ctx, int_round=True)
            v, secs, _ = api.solve(r2.cons + [r2.tr(c2b) != r2.tr(cvar)] + r2.cons, 30)
            res.query("requantize-idempotent", "RERR", v, secs, sub="lemmaC clamp/cast of an in-range code")
        else:
            # float8 codes: per binade of the code, v = +-k*2^(E-p+1); the cast contract (nearest grid point) does the rest
            p8, emin8, emax8 = f8["p"], f8["emin"], f8["emax"]
            for E in [None] + list(range(emin8, emax8 + 1)):
                rr = rerr.Rerr(ctx, int_round=True)
                srr, cr, c2r = rr.tr(S[()]), rr.tr(cvar), rr.tr(c2)
                k = z3.Int("kcode")
                qE = rv(Fraction(2) ** ((emin8 if E is None else E) - p8 + 1))
                rng = [k >= 0, k < 2 ** (p8 - 1)] if E is None else [k >= 2 ** (p8 - 1), k < 2**p8]
                for sign in (1, -1):
                    pre = rr.cons + [srr > 0, srr * rv(qmax) <= rv(f["fmax"]), srr * rv(lowmul) >= rv(8 * f["fmin_sub"]), cr == sign * z3.ToReal(k) * qE, zabs(cr) <= rv(qmax)] + rng
                    v, secs, model = api.solve(pre + [c2r != cr], 60)
                    res.query("requantize-idempotent", "RERR", v, secs, sub=f"binade{E} sign{sign}")
                    if v == "sat":
                        sv = api.real_model_values(rr, model, S, dt)[0]
                        mv = model.eval(cr, model_completion=True)
                        cvv = float(Fraction(mv.numerator_as_long(), mv.denominator_as_long()))
                        res.candidate("requantize-idempotent", "RERR", replay_inputs(cvv, sv))
        return

    if case["kind"] == "plumb":
        for shape in case["shapes"]:
            shape = tuple(shape)
            axes = [None] + ([0, -1] if len(shape) > 1 else [])
            for axis in axes:
                if axis is not None and (shape[axis] == 1):
                    continue
                for lname, layout in _layouts(shape):
                    x, s = _mk_inputs(shape, axis, dt, layout)
                    x0 = torch.tensor([0.37], dtype=dt)
                    s0 = torch.tensor(0.011, dtype=dt)
                    cfg = f"{shape} axis={axis} {lname}"
                    with Session(res) as m:
                        X0, S0 = m.symbolic(x0, "X"), m.symbolic(s0, "S")
                        q0 = SymmetricQuantizer.apply(x0, qt, None, s0)
                        KC, KD = m.read(q0._data)[0], m.read(q0.dequantize())[0]
                        X, S = m.symbolic(x, "x"), m.symbolic(s, "s")
                        try:
                            q = SymmetricQuantizer.apply(x, qt, axis, s)
                        except Exception as e:  # noqa
                            res.side_ok("plumbing-accepts-valid-config", False, f"{cfg}: {type(e).__name__}: {e}")
                            res.side[-1]["replayed"] = True
                            res.candidate("plumbing", "side", enc(x, s, axis), exact=True)
                            continue
                        C, D = m.read(q._data), m.read(q.dequantize())
                    meta_ok = tuple(q.shape) == shape and q.stride() == x.stride() and q.dtype == s.dtype and tuple(q._data.shape) == shape and q._data.dtype == qt.dtype and q.qtype == qt and q.axis == axis and D.shape == shape
                    res.side_ok("plumbing-metadata", meta_ok, cfg)
                    if not meta_ok:
                        res.side[-1]["replayed"] = True
                        res.candidate("plumbing", "side", enc(x, s, axis), exact=True)
                        continue
                    import numpy as np

                    Sb = np.broadcast_to(S, shape)
                    bad = None
                    for idx in np.ndindex(shape):
                        ec, ed = api.subst(m.ctx, [KC, KD], {X0[0].uid: X[idx], S0[()].uid: Sb[idx]})
                        if ec is not C[idx] or ed is not D[idx]:
                            bad = idx
                            break
                    res.query("plumbing-term-identity", "ALG", "unsat" if bad is None else "sat", 0.0, sub=cfg, nvars=x.numel() + s.numel())
                    if bad is not None:
                        # witnesses: the seed and a second, row-distinguishing seed
                        res.candidate("plumbing", "ALG", enc(x, s, axis), note=f"element {bad} is not the scalar kernel applied to x{list(bad)} and its axis scale")
                        x2, s2 = _mk_inputs(shape, axis, dt, layout)
                        s2 = (s2 * torch.arange(1, s2.numel() + 1, dtype=torch.float32).reshape(s2.shape).to(dt)).to(dt)
                        res.candidate("plumbing", "ALG", enc(x2, s2, axis), note="second witness with strongly distinct scales")
        return
    raise KeyError(case["kind"])


def replay(rec):
    from symt import api

    inp = rec["inputs"]
    x = api.dec_tensor(inp["x"])
    s = api.dec_tensor(inp["scale"])
    try:
        probs = []
        # both public entry points (the per-tensor one also through quantize_activation)
        for entry in ("quantizer", "activation") if (inp["axis"] is None and s.numel() == 1) else ("quantizer",):
            ENTRY[0] = entry
            try:
                pe = oracle(x, s, inp["qtype"], inp["axis"])
                if rec["clause"] in ("saturate-high", "saturate-low", "code-not-nan", "finite-when-grid-representable"):
                    pe += saturation_oracle(x, s, inp["qtype"], inp["axis"])
            finally:
                ENTRY[0] = "quantizer"
            probs += [f"[{entry}] {p_}" for p_ in pe]
    except Exception as e:  # noqa
        import traceback

        return True, f"quantization raised on a valid configuration: {type(e).__name__}: {e}\n{traceback.format_exc()[-600:]}", None
    return bool(probs), f"C01 oracle on x={x.tolist()} scale={s.tolist()} qtype={inp['qtype']} axis={inp['axis']}:\n" + "\n".join(probs[:5]), None
