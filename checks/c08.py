"""C08 - quantize() swaps exactly the eligible modules and each computes its float twin (DESIGN.md section 6, C08)."""
import itertools
import re

import torch

from . import models, wq

F = torch.nn.functional
EVIDENCE = dict(
    bounds="parameter preservation and forward equivalence (ALG): all parameters and inputs symbolic, Linear(3,2), Conv2d over stride/padding (ints, tuples, 'same', 'valid')/dilation/groups/padding_mode/bias, LayerNorm over normalized_shape/affine/bias; six weight qtypes; activations None/qint8/qfloat8_e4m3fn; float32 (+float16 thorough); structure: 9 module trees (nesting depth <= 3, Sequential/ModuleList/ModuleDict/custom containers, shared submodule, digit and overlapping names) x module filters; dotted names: CrossHair search over symbolic component names (<= 3 components, <= 2-4 characters) on the AST slice of set_module_by_name plus exhaustive enumeration of names over a 3-letter alphabet on real module trees",
    outside="the space of architectures is enumerated, not solved (stated as side conditions); convolution / layer_norm numerics are PyTorch's (opaque: equal calls give equal results); 8-bit Linear values are C07's clause (here: support and replayed tolerance); CrossHair does not confirm the dotted-name slice over all paths (search only: it refutes the seeded rstrip defect in 60 s)",
    assumptions=["opaque convolution/layer_norm: equal iff static arguments and argument terms are equal", "ALG term identity = equal for all values under any float semantics"],
)
CASE_DEADLINE = dict(quick=400.0, thorough=1500.0)
ALLQ = wq.QT8 + wq.QTB

CONVS = [
    dict(in_channels=2, out_channels=2, kernel_size=2),
    dict(in_channels=2, out_channels=2, kernel_size=(2, 1), stride=2, bias=False),
    dict(in_channels=2, out_channels=2, kernel_size=2, padding=1, dilation=(1, 2)),
    dict(in_channels=2, out_channels=4, kernel_size=1, groups=2),
    dict(in_channels=1, out_channels=2, kernel_size=3, padding="same"),
    dict(in_channels=1, out_channels=2, kernel_size=2, padding="valid", stride=(1, 2)),
    dict(in_channels=1, out_channels=2, kernel_size=2, padding=1, padding_mode="circular"),
    dict(in_channels=1, out_channels=1, kernel_size=2, padding=(1, 0), padding_mode="reflect"),
    dict(in_channels=1, out_channels=1, kernel_size=2, padding=1, padding_mode="replicate"),
]
LNORMS = [dict(normalized_shape=3), dict(normalized_shape=(2, 3)), dict(normalized_shape=3, elementwise_affine=False), dict(normalized_shape=3, bias=False), dict(normalized_shape=3, eps=1e-3)]


class Custom(torch.nn.Module):
    def __init__(self):
        super().__init__()
        self.proj = torch.nn.Linear(3, 3)
        self.act = torch.nn.GELU()
        self.norm = torch.nn.LayerNorm(3)
        self.emb = torch.nn.Embedding(4, 3)
        self.inner = torch.nn.Sequential(torch.nn.Conv2d(1, 1, 1), torch.nn.Sequential(torch.nn.ReLU(), torch.nn.Linear(3, 2)))


def _tied():
    """an embedding whose weight Parameter is shared with an eligible Linear (weight tying), and a bias shared by two modules"""
    m = torch.nn.ModuleDict({"embed": torch.nn.Embedding(5, 3), "body": torch.nn.Linear(3, 3), "norm": torch.nn.LayerNorm(3), "head": torch.nn.Linear(3, 5, bias=False)})
    m["head"].weight = m["embed"].weight
    m["norm"].bias = m["body"].bias
    return m


def trees():
    shared = torch.nn.Linear(3, 3)
    return {
        "tied": _tied,
        "flat": lambda: torch.nn.Sequential(torch.nn.Linear(3, 3), torch.nn.ReLU(), torch.nn.LayerNorm(3), torch.nn.Conv2d(1, 1, 1)),
        "nested-digits": lambda: torch.nn.Sequential(torch.nn.Linear(3, 3), torch.nn.Sequential(torch.nn.ReLU(), torch.nn.Linear(3, 3)), torch.nn.Sequential(torch.nn.Sequential(torch.nn.Linear(3, 1)))),
        "modulelist": lambda: torch.nn.ModuleList([torch.nn.Linear(3, 3), torch.nn.ModuleList([torch.nn.Linear(3, 3), torch.nn.Tanh()])]),
        "moduledict": lambda: torch.nn.ModuleDict({"h": torch.nn.ModuleDict({"0": torch.nn.ModuleDict({"attn": torch.nn.ModuleDict({"c_attn": torch.nn.Linear(3, 3), "c": torch.nn.Linear(3, 3)})})}), "ln_f": torch.nn.LayerNorm(3)}),
        "custom": lambda: Custom(),
        "overlap-names": lambda: torch.nn.ModuleDict({"a": torch.nn.ModuleDict({"aa": torch.nn.Linear(3, 3), "a": torch.nn.ModuleDict({"a": torch.nn.Linear(3, 3)})}), "ab": torch.nn.ModuleDict({"ba": torch.nn.Linear(3, 3), "b": torch.nn.Conv2d(1, 1, 1)})}),
        "root-is-linear": lambda: torch.nn.Sequential(torch.nn.Linear(3, 3)),
        "only-others": lambda: torch.nn.Sequential(torch.nn.ReLU(), torch.nn.Embedding(3, 3), torch.nn.BatchNorm1d(3)),
        "non-default-hyper": lambda: torch.nn.Sequential(torch.nn.LayerNorm(3, eps=1e-12), torch.nn.Sequential(torch.nn.LayerNorm((2, 3), eps=0.5, elementwise_affine=True), torch.nn.Conv2d(2, 4, (1, 2), stride=(2, 1), padding=(0, 1), dilation=(1, 2), groups=2, bias=False, padding_mode="reflect")), torch.nn.Linear(3, 2, bias=False)),
        "conv-stack": lambda: torch.nn.Sequential(torch.nn.Conv2d(1, 2, 1), torch.nn.Sequential(torch.nn.Conv2d(2, 2, 1, groups=2), torch.nn.LayerNorm(2))),
    }


def cases(tier, seed):
    out = []
    acts = [None, "qint8"] if tier == "quick" else [None, "qint8", "qfloat8_e4m3fn"]
    for dt in ["float32"] + (["float16"] if tier == "thorough" else []):
        for a in acts:
            for q in (["qint8", "qint4", "qfloat8_e4m3fn"] if tier == "quick" else ALLQ):
                out.append(dict(kind="forward", module="linear", dtype=dt, qtype=q, act=a, confs=[0]))
                for i in range(0, len(CONVS), 3):
                    out.append(dict(kind="forward", module="conv", dtype=dt, qtype=q, act=a, confs=list(range(i, min(i + 3, len(CONVS))))))
            if a is not None:
                out.append(dict(kind="forward", module="lnorm", dtype=dt, qtype="qint8", act=a, confs=list(range(len(LNORMS)))))
    for t in trees():
        out.append(dict(kind="structure", tree=t))
    out.append(dict(kind="names-crosshair", deadline=600.0))
    out.append(dict(kind="names-enum"))
    return out


def make_module(module, conf, dt):
    torch.manual_seed(4)
    if module == "linear":
        return torch.nn.Linear(3, 2, dtype=dt), torch.randn(2, 3).to(dt)
    if module == "conv":
        kw = CONVS[conf]
        return torch.nn.Conv2d(dtype=dt, **kw), torch.randn(1, kw["in_channels"], 3, 4).to(dt)
    kw = LNORMS[conf]
    shape = kw["normalized_shape"]
    return torch.nn.LayerNorm(dtype=dt, **kw), torch.randn(2, *((shape,) if isinstance(shape, int) else shape)).to(dt)


def float_twin(fm, qm, x, read):
    """float module's functional form on the dequantized quantized weight and the (de)quantized input, re-quantized with the
    module's output scale when activations are quantized"""
    from optimum.quanto import quantize_activation
    from optimum.quanto.tensor import QTensor

    act = qm.activation_qtype
    xin = x
    if act is not None and not isinstance(qm, torch.nn.LayerNorm):
        xin = quantize_activation(x, act, qm.input_scale).dequantize()
    w = qm.qweight.dequantize() if qm.weight_qtype is not None else qm.weight
    if isinstance(qm, torch.nn.Linear):
        y = torch.matmul(xin, w.t())
        if qm.bias is not None:
            y = y + qm.bias
    elif isinstance(qm, torch.nn.Conv2d):
        # the ORIGINAL float module's own forward path, with the dequantized weight
        y = torch.nn.Conv2d._conv_forward(fm, xin, w, qm.bias)
    else:
        y = F.layer_norm(xin, fm.normalized_shape, qm.weight, qm.bias, fm.eps)
    if act is not None:
        y = quantize_activation(y, act, qm.output_scale).dequantize()
    return y


def hyper(m):
    if isinstance(m, torch.nn.Linear):
        return ("linear", m.in_features, m.out_features, m.bias is not None)
    if isinstance(m, torch.nn.Conv2d):
        return ("conv", m.in_channels, m.out_channels, m.kernel_size, m.stride, m.padding, m.dilation, m.groups, m.padding_mode, m.bias is not None)
    if isinstance(m, torch.nn.LayerNorm):
        return ("lnorm", tuple(m.normalized_shape), m.eps, m.elementwise_affine, m.bias is not None)
    return None


def structure_problems(tree_name, weights, activations, filt):
    from optimum.quanto import quantize
    from optimum.quanto.nn import QConv2d, QLayerNorm, QLinear, QModuleMixin

    model = trees()[tree_name]()
    before = {n: m for n, m in model.named_modules()}
    hp = {n: hyper(m) for n, m in before.items()}
    pvals = {n: p.detach().clone() for n, p in model.named_parameters(remove_duplicate=False)}
    dts = {n: (p.dtype, p.device) for n, p in model.named_parameters(remove_duplicate=False)}
    eligible = {n for n, m in before.items() if type(m) in (torch.nn.Linear, torch.nn.Conv2d) or (type(m) is torch.nn.LayerNorm and activations is not None)}
    mods = None
    if filt == "first-half":
        names = sorted(eligible)
        sel = set(names[: max(1, len(names) // 2)]) if names else set()
        mods = [before[n] for n in sel]
        eligible = sel
    elif filt == "non-eligible-only":
        mods = [m for n, m in before.items() if n not in eligible]
        eligible = set()
    probs = []
    try:
        quantize(model, modules=mods, weights=weights, activations=activations)
    except Exception as e:  # noqa
        return [f"quantize() raised {type(e).__name__}: {e}"]
    after = {n: m for n, m in model.named_modules()}
    if set(after) != set(before):
        probs.append(f"module names changed: {sorted(set(after) ^ set(before))[:5]}")
    for n, m in after.items():
        if n not in before:
            continue
        if n in eligible:
            want = {torch.nn.Linear: QLinear, torch.nn.Conv2d: QConv2d, torch.nn.LayerNorm: QLayerNorm}[type(before[n])]
            if type(m) is not want:
                probs.append(f"{n!r}: expected {want.__name__}, found {type(m).__name__}")
                continue
            if hyper(m) != hp[n]:
                probs.append(f"{n!r}: hyper-parameters {hyper(m)} != {hp[n]}")
            for pn, p in m.named_parameters(recurse=False):
                full = f"{n}.{pn}" if n else pn
                if full in pvals and (not torch.equal(p.detach(), pvals[full]) or (p.dtype, p.device) != dts[full]):
                    probs.append(f"{full}: parameter not preserved bit-identically")
            if any(p is not None for p in before[n]._parameters.values()) and before[n] is not m:
                probs.append(f"{n!r}: original module's parameters not cleared")
        else:
            if m is not before[n]:
                probs.append(f"{n!r}: non-selected module was replaced by {type(m).__name__}")
            elif isinstance(m, QModuleMixin):
                probs.append(f"{n!r}: non-selected module is quantized")
            # a module that is not replaced keeps its own parameters bit for bit (they may be shared with a replaced module)
            for pn, p in m._parameters.items():
                full = f"{n}.{pn}" if n else pn
                if p is not None and full in pvals and (p.shape != pvals[full].shape or (p.dtype, p.device) != dts[full] or not torch.equal(p.detach(), pvals[full])):
                    probs.append(f"{full}: parameter of a module that was not replaced changed ({tuple(pvals[full].shape)} -> {tuple(p.shape)})")
    return probs


def run_case(case, res):
    from symt import api, xhair
    from symt.api import Session

    from optimum.quanto import quantize
    from optimum.quanto.tensor import QTensor

    if case["kind"] == "forward":
        dt = api.DT[case["dtype"]]
        q_t = wq.qt(case["qtype"])
        a_t = wq.qt(case["act"]) if case["act"] else None
        for conf in case["confs"]:
            fm, x = make_module(case["module"], conf, dt)
            cfg = f"{case['module']}[{conf}] {CONVS[conf] if case['module']=='conv' else LNORMS[conf] if case['module']=='lnorm' else ''}"
            model = torch.nn.Sequential(fm)
            enc = dict(kind="forward", module=case["module"], conf=conf, dtype=case["dtype"], qtype=case["qtype"], act=case["act"], x=api.enc_tensor(x))
            with Session(res) as m:
                P = {n: m.symbolic(p.data, f"p.{n}") for n, p in fm.named_parameters()}
                X = m.symbolic(x, "x")
                try:
                    quantize(model, weights=q_t, activations=a_t)
                except Exception as e:  # noqa
                    res.side_ok("quantize-accepts-module", False, f"{cfg}: {type(e).__name__}: {e}")
                    res.side[-1]["replayed"] = True
                    known = case["module"] == "lnorm" and LNORMS[conf].get("elementwise_affine") is False
                    res.candidate(("region-witness:" if known else "") + "quantize-raises", "side", enc, exact=not known)
                    continue
                qm = model[0]
                if a_t is not None and dt != torch.float32:
                    # before calibration the scale buffers are float32 ones whatever the module dtype
                    try:
                        with torch.no_grad():
                            y0 = qm(x)
                        ok0 = (y0.dequantize() if isinstance(y0, QTensor) else y0).dtype == dt
                        why0 = f"output dtype {(y0.dequantize() if isinstance(y0, QTensor) else y0).dtype}"
                    except Exception as e:  # noqa
                        ok0, why0 = False, f"{type(e).__name__}: {e}"
                    res.side_ok("uncalibrated-16-bit-module-runs-in-its-dtype", ok0, f"{cfg}: {why0}")
                    if not ok0:
                        res.side[-1]["replayed"] = True
                        e0 = dict(enc)
                        e0["kind"] = "uncalibrated"
                        res.candidate("region-witness:uncalibrated-16bit", "side", e0, exact=False)
                if a_t is not None:
                    models.set_scales(model, 0.05, 0.09)
                    m.symbolic(qm.input_scale, "s_in")
                    m.symbolic(qm.output_scale, "s_out")
                # parameters survive bit-identically (same variables), originals cleared
                pres = all(all(a is b for a, b in zip(m.read(getattr(qm, n).data).reshape(-1), P[n].reshape(-1))) for n in P)
                cleared = all(p is None for p in fm._parameters.values()) if fm is not qm else True
                res.query("parameters-preserved", "ALG", "unsat" if pres and cleared else "sat", 0.0, sub=cfg, nvars=sum(v.size for v in P.values()))
                if not (pres and cleared):
                    res.candidate("params", "ALG", enc)
                fm2, _ = make_module(case["module"], conf, dt)  # hyper-parameter carrier for the float twin
                hp_ok = hyper(qm) == hyper(fm2)
                res.side_ok("hyper-parameters-mirrored", hp_ok, f"{cfg}: {hyper(qm)} vs {hyper(fm2)}")
                if not hp_ok:
                    res.side[-1]["replayed"] = True
                    e1 = dict(enc)
                    e1["kind"] = "hyper"
                    res.candidate("hyper", "side", e1, exact=True)
                try:
                    with torch.no_grad():
                        y = qm(x)
                except Exception as e:  # noqa
                    res.side_ok("quantized-forward-runs", False, f"{cfg}: {type(e).__name__}: {e}")
                    res.side[-1]["replayed"] = True
                    known = case["module"] == "conv" and CONVS[conf].get("padding_mode") == "circular" and a_t is not None
                    res.candidate(("region-witness:" if known else "") + "forward-raises", "side", enc, exact=not known)
                    continue
                with torch.no_grad():
                    ref = float_twin(fm2, qm, x, m.read)
                Y = m.read(y.dequantize() if isinstance(y, QTensor) else y)
                R = m.read(ref)
                QI = None
                if case["module"] == "lnorm" and a_t is not None and not a_t.is_floating_point:
                    # the same module fed an already quantized activation (any codes, a small scale: magnitudes at which eps matters)
                    from optimum.quanto.tensor import QBytesTensor

                    codes = torch.randint(-128, 128, x.shape, dtype=torch.int8)
                    qs = torch.tensor(5e-4, dtype=dt)
                    m.symbolic(codes, "xq")
                    m.symbolic(qs, "sq")
                    xq = QBytesTensor(a_t, None, codes.size(), codes.stride(), codes, qs)
                    try:
                        with torch.no_grad():
                            y2 = qm(xq)
                            ref2 = float_twin(fm2, qm, xq.dequantize(), m.read)
                        Y2, R2 = m.read(y2.dequantize() if isinstance(y2, QTensor) else y2), m.read(ref2)
                        QI = (Y2.shape == R2.shape and all(a_ is b_ for a_, b_ in zip(Y2.reshape(-1), R2.reshape(-1))), codes)
                    except Exception as e_:  # noqa
                        QI = (False, codes)
                        res.notes.append(f"{cfg}: quantized input: {type(e_).__name__}: {e_}")
            if QI is not None:
                res.query("forward-on-quantized-input-equals-float-twin", "ALG", "unsat" if QI[0] else "sat", 0.0, sub=cfg, nvars=len(m.ctx.vars))
                if not QI[0]:
                    e2 = dict(enc)
                    e2["xq"] = api.enc_tensor(QI[1])
                    res.candidate("forward-qinput", "ALG", e2)
            shape_ok = Y.shape == R.shape
            res.side_ok("forward-shape", shape_ok, f"{cfg}: {Y.shape} vs {R.shape}")
            if not shape_ok:
                res.side[-1]["replayed"] = True
                res.candidate("forward", "side", enc, exact=True)
                continue
            exact_expected = not (case["module"] == "linear" and q_t.bits == 8)
            eq = api.equal_modulo_bits(m.ctx, Y, R, q_t.bits if q_t.bits < 8 else None, None) if not all(a is b for a, b in zip(Y.reshape(-1), R.reshape(-1))) else True
            if exact_expected:
                res.query("forward-equals-float-twin", "ALG", "unsat" if eq else "sat", 0.0, sub=cfg, nvars=len(m.ctx.vars))
                if not eq:
                    res.candidate("forward", "ALG", enc)
            else:
                res.notes.append(f"{cfg}: 8-bit linear values are C07's clause; replayed with tolerance")
                res.candidate("region-witness:forward-8bit-linear-tolerance", "ALG", enc)
        return

    if case["kind"] == "structure":
        # quantize() is called many times in one process, as an application that quantizes several models does: the outcome of a
        # call must not depend on the calls before it.  Every failing configuration is replayed in a fresh process together with
        # the history of calls that preceded it here (both orders of the configuration list are run).
        confs = list(itertools.product((wq.qt("qint8"), wq.qt("qint4")), (None, wq.qt("qint8")), (None, "first-half", "non-eligible-only")))
        hist = []
        for weights, activations, filt in confs + confs[::-1]:
            probs = structure_problems(case["tree"], weights, activations, filt)
            res.side_ok("exactly-the-eligible-modules-are-swapped", not probs, f"{case['tree']} weights={weights.name} act={activations} filter={filt} after {len(hist)} earlier calls: {probs[:2]}")
            if probs:
                res.side[-1]["replayed"] = True
                res.candidate("structure", "side", dict(kind="structure", tree=case["tree"], weights=weights.name, act=activations.name if activations else None, filt=filt, history=list(hist)), exact=True)
            hist.append([case["tree"], weights.name, activations.name if activations else None, filt])
        return

    if case["kind"] == "names-crosshair":
        src, node, _ = xhair.source_of("optimum/quanto/quantize.py", "set_module_by_name")
        mod = HARNESS_HEAD + src + HARNESS_TAIL
        out, secs, raw = xhair.run(mod, "setmod", 40, 500)
        if not out:
            res.query("dotted-names", "CrossHair", "unknown", secs, note="no verdict lines: " + raw[-200:])
        for line, v, msg in out:
            res.query("dotted-names", "CrossHair", v, secs / max(1, len(out)), sub=msg[:120], note="search only when not confirmed")
            if v == "sat":
                mm = re.search(r"calling _depth\d\((.*)\)", msg)
                if mm:
                    comps = eval("[" + mm.group(1) + "]")
                    alphabet = {}
                    names = ["".join(alphabet.setdefault(ch, "abcdefgh"[len(alphabet)]) for ch in c) for c in comps]
                    res.candidate("dotted-names", "CrossHair", dict(kind="names", comps=names), exact=False)
        return

    if case["kind"] == "names-enum":
        from optimum.quanto.quantize import set_module_by_name

        alpha = ["a", "b", "1"]
        comps = [c for n in (1, 2) for c in ("".join(t) for t in itertools.product(alpha, repeat=n))]
        bad = []
        count = 0
        for depth in (1, 2, 3):
            for path in itertools.product(comps, repeat=depth):
                count += 1
                if name_problem(list(path), set_module_by_name):
                    bad.append(path)
        res.side_ok("dotted-names-exhaustive-small-alphabet", not bad, f"{count} names, failing: {bad[:3]}")
        if bad:
            res.side[-1]["replayed"] = True
            res.candidate("dotted-names", "enum", dict(kind="names", comps=list(bad[0])), exact=True)
        return
    raise KeyError(case["kind"])


def name_problem(comps, set_module_by_name):
    root = torch.nn.Module()
    cur = root
    chain = []
    for c in comps:
        child = torch.nn.Module()
        cur.add_module(c, child)
        # a sibling whose name shares characters, to expose wrong-parent resolution
        cur.add_module(c + "x", torch.nn.Identity())
        chain.append((cur, c, child))
        cur = child
    new = torch.nn.Linear(1, 1)
    before = {n: m for n, m in root.named_modules()}
    name = ".".join(comps)
    try:
        set_module_by_name(root, name, new)
    except Exception as e:  # noqa
        return f"raised {type(e).__name__}: {e}"
    after = {n: m for n, m in root.named_modules()}
    if after.get(name) is not new:
        return f"{name!r} does not resolve to the new module"
    for n, m in before.items():
        if n != name and not n.startswith(name + ".") and after.get(n) is not m:
            return f"module {n!r} changed"
    if set(after) - set(before):
        return f"new names appeared: {sorted(set(after) - set(before))}"
    return None


HARNESS_HEAD = '''
from typing import Dict

class Node:
    """stand-in for torch.nn.Module: children are attributes; get_submodule walks dotted paths"""
    def __init__(self):
        self.children: Dict[str, "Node"] = {}
    def __setattr__(self, k, v):
        if k == "children":
            object.__setattr__(self, k, v)
        else:
            self.children[k] = v
    def get_submodule(self, target: str) -> "Node":
        if target == "":
            return self
        cur = self
        for item in target.split("."):
            if item not in cur.children:
                raise AttributeError(item)
            cur = cur.children[item]
        return cur

'''
HARNESS_TAIL = '''

def build(a: str, b: str, c: str) -> Node:
    root = Node()
    na, nb, nc = Node(), Node(), Node()
    root.children[a] = na
    na.children[b] = nb
    nb.children[c] = nc
    return root

def _depth3(a: str, b: str, c: str) -> bool:
    """
    pre: 1 <= len(a) <= 2 and 1 <= len(b) <= 2 and 1 <= len(c) <= 2
    pre: "." not in a and "." not in b and "." not in c
    post: _
    """
    root = build(a, b, c)
    new = Node()
    old_a, old_b = root.children[a], root.children[a].children[b]
    set_module_by_name(root, a + "." + b + "." + c, new)
    return root.get_submodule(a + "." + b + "." + c) is new and root.children[a] is old_a and old_a.children[b] is old_b and len(root.children) == 1 and len(old_a.children) == 1 and len(old_b.children) == 1

def _depth2(a: str, b: str) -> bool:
    """
    pre: 1 <= len(a) <= 3 and 1 <= len(b) <= 3
    pre: "." not in a and "." not in b
    post: _
    """
    root = Node()
    na = Node()
    root.children[a] = na
    na.children[b] = Node()
    new = Node()
    set_module_by_name(root, a + "." + b, new)
    return root.get_submodule(a + "." + b) is new and root.children[a] is na and len(root.children) == 1 and len(na.children) == 1

def _depth1(a: str) -> bool:
    """
    pre: 1 <= len(a) <= 4 and "." not in a
    post: _
    """
    root = Node()
    root.children[a] = Node()
    new = Node()
    set_module_by_name(root, a, new)
    return root.children[a] is new and len(root.children) == 1
'''


def replay(rec):
    from symt import api

    from optimum.quanto import quantize
    from optimum.quanto.tensor import QTensor

    inp = rec["inputs"]
    if inp["kind"] == "structure":
        for t_, w_, a_, f_ in inp.get("history", []):
            structure_problems(t_, wq.qt(w_), wq.qt(a_) if a_ else None, f_)
        probs = structure_problems(inp["tree"], wq.qt(inp["weights"]), wq.qt(inp["act"]) if inp["act"] else None, inp["filt"])
        return bool(probs), "; ".join(probs[:4]) or "structure ok", None
    if inp["kind"] == "names":
        from optimum.quanto.quantize import set_module_by_name

        p = name_problem(inp["comps"], set_module_by_name)
        return bool(p), f"set_module_by_name on {'.'.join(inp['comps'])!r}: {p}", None
    dt = api.DT[inp["dtype"]]
    fm, _ = make_module(inp["module"], inp["conf"], dt)
    x = api.dec_tensor(inp["x"])
    model = torch.nn.Sequential(fm)
    a_t = wq.qt(inp["act"]) if inp["act"] else None
    try:
        quantize(model, weights=wq.qt(inp["qtype"]), activations=a_t)
    except Exception as e:  # noqa
        key = ["C08/layernorm-without-affine"] if inp["module"] == "lnorm" and LNORMS[inp["conf"]].get("elementwise_affine") is False else None
        return True, f"quantize() raised {type(e).__name__}: {e}", key
    qm = model[0]
    if inp["kind"] == "hyper":
        fm3, _ = make_module(inp["module"], inp["conf"], dt)
        bad = hyper(qm) != hyper(fm3)
        return bad, f"quantized module hyper-parameters {hyper(qm)} vs float module {hyper(fm3)}", None
    if inp["kind"] == "uncalibrated":
        try:
            with torch.no_grad():
                y0 = qm(x)
            y0 = y0.dequantize() if isinstance(y0, QTensor) else y0
            bad = y0.dtype != dt
            why = f"output dtype {y0.dtype} for a {dt} module"
        except Exception as e:  # noqa
            bad, why = True, f"{type(e).__name__}: {e}"
        return bad, f"uncalibrated {inp['module']} with quantized activations: {why}", (["C08/uncalibrated-16bit-module-float32-scales"] if bad else None)
    if a_t is not None:
        models.set_scales(model, 0.05, 0.09)
    fm2, _ = make_module(inp["module"], inp["conf"], dt)
    if inp.get("xq") is not None:
        from optimum.quanto.tensor import QBytesTensor

        codes = api.dec_tensor(inp["xq"])
        xq = QBytesTensor(a_t, None, codes.size(), codes.stride(), codes, torch.tensor(5e-4, dtype=dt))
        with torch.no_grad():
            y2 = qm(xq)
            ref2 = float_twin(fm2, qm, xq.dequantize(), None)
        y2 = y2.dequantize() if isinstance(y2, QTensor) else y2
        bad = y2.shape != ref2.shape or not torch.equal(torch.nan_to_num(y2.double()), torch.nan_to_num(ref2.double()))
        return bool(bad), f"{inp['module']}[{inp['conf']}] on a quantized input (scale 5e-4): output {y2.flatten()[:6].tolist()} vs float twin {ref2.flatten()[:6].tolist()}", None
    try:
        with torch.no_grad():
            y = qm(x)
    except Exception as e:  # noqa
        key = ["C08/circular-padding-with-quantized-activations"] if inp["module"] == "conv" and CONVS[inp["conf"]].get("padding_mode") == "circular" and a_t is not None else None
        return True, f"quantized forward raised {type(e).__name__}: {e}", key
    with torch.no_grad():
        ref = float_twin(fm2, qm, x, None)
    y = y.dequantize() if isinstance(y, QTensor) else y
    if y.shape != ref.shape:
        return True, f"output shape {tuple(y.shape)} vs float twin {tuple(ref.shape)}", None
    f = wq.fmt(dt)
    if inp["module"] == "linear" and wq.qt(inp["qtype"]).bits == 8:
        step = 0.09 if a_t is not None else 0.0
        tol = 64 * 2.0 ** -f["p"] * (ref.double().abs() + 1) + 1.01 * step
        bad = ((y.double() - ref.double()).abs() > tol).any()
    else:
        bad = not torch.equal(torch.nan_to_num(y.double()), torch.nan_to_num(ref.double()))
    return bool(bad), f"{inp['module']}[{inp['conf']}] output {y.flatten()[:6].tolist()} vs float twin {ref.flatten()[:6].tolist()}", None
