"""Shared helpers for the weight-quantization checks (C02, C03, C14, C16): layouts, the grouping oracle,
the exact-rational error oracle and the known-finding region classifier."""
import itertools
from fractions import Fraction

import torch

QT8 = ["qint8", "qfloat8_e4m3fn", "qfloat8_e5m2"]
QTB = ["qint4", "qint2"]


def qt(name):
    import optimum.quanto as oq

    return getattr(oq, name)


def layouts(shape):
    yield "contiguous", lambda t: t
    if len(shape) >= 2:
        yield "transposed", lambda t: t.transpose(0, -1).contiguous().transpose(0, -1)
    yield "step2", lambda t: torch.stack([t, t], dim=-1).reshape(*t.shape[:-1], -1)[..., ::2]


def divisors(n):
    return [d for d in range(1, n + 1) if n % d == 0]


def groups_oracle(shape, axis, group_size):
    """Documented grouping semantics, written independently of quanto's group(): the kept axis is `axis`; for each index
    along it the remaining elements (C order) are split into consecutive runs of group_size.
    Returns list of groups, each a list of element index tuples, in (axis index major, run minor) order."""
    nd = len(shape)
    if nd == 1:
        # rank 1: there is no "other" dimension; quanto reduces over the whole vector (one group), or over runs of
        # group_size elements
        elems = [(i,) for i in range(shape[0])]
        gs = group_size or len(elems)
        return [elems[k : k + gs] for k in range(0, len(elems), gs)]
    ax = axis % nd
    others = [d for d in range(nd) if d != ax]
    groups = []
    for j in range(shape[ax]):
        elems = []
        for rest in itertools.product(*[range(shape[d]) for d in others]):
            idx = [0] * nd
            idx[ax] = j
            for d, v in zip(others, rest):
                idx[d] = v
            elems.append(tuple(idx))
        gs = group_size or len(elems)
        for k in range(0, len(elems), gs):
            groups.append(elems[k : k + gs])
    return groups


def fmt(dtype):
    from symt import terms as tm

    return tm.FMT[dtype]


# ----------------------------------------------------------------------------------------- known-finding regions
def classify_group(vals, bits, dtype):
    """region of the input space a group of source values falls in (Python side of the region predicates; mirrors the
    range the MaxOptimizer uses: the hull of the group and zero)"""
    f = fmt(dtype)
    if any(v != v or abs(v) == float("inf") for v in vals):
        return "non-finite-input"
    lo, hi = min(list(vals) + [0.0]), max(list(vals) + [0.0])
    if Fraction(hi) - Fraction(lo) > Fraction(f["fmax"]):
        return "range-overflow"
    n = 2**bits - 1
    t = torch.tensor([lo, hi], dtype=torch.float64).to(dtype)
    scale = (t[1] - t[0]) / n
    if float(scale) == 0.0:
        return None if hi == lo else "zero-scale-underflow"
    zpf = float(torch.round(-t[0] / scale))
    if zpf != zpf or abs(zpf) == float("inf") or zpf > 127 or zpf < -128:
        return "zeropoint-overflow"
    if zpf < -(127 - n):
        return "code-minus-zeropoint-overflow"
    fmax = f["fmax"]
    if abs(float(scale.double()) * (n - zpf)) > fmax or abs(float(scale.double()) * (0 - zpf)) > fmax:
        return "grid-endpoint-overflow"
    return None


def affine_oracle(w, qtype_name, axis, group_size, tol_scale=1):
    """exact-rational C02 oracle on plain quanto.  Returns (problems, regions) where problems is a list of
    (group index, element index, message, region-or-None)."""
    from optimum.quanto import quantize_weight

    q_t = qt(qtype_name)
    bits = q_t.bits
    dtype = w.dtype
    f = fmt(dtype)
    u = Fraction(1, 2 ** f["p"])
    eta = Fraction(2) ** (f["emin"] - f["p"])
    q = quantize_weight(w, q_t, axis, group_size)
    d = q.dequantize()
    probs = []
    if tuple(d.shape) != tuple(w.shape) or tuple(q.shape) != tuple(w.shape) or d.dtype != w.dtype:
        return [(None, None, f"shape/dtype: dequantized {tuple(d.shape)} {d.dtype} for source {tuple(w.shape)} {w.dtype}", None)]
    wl, dl = w.double(), d.double()
    for gi, g in enumerate(groups_oracle(tuple(w.shape), axis, group_size)):
        vals = [float(wl[i]) for i in g]
        region = classify_group(vals, bits, dtype)
        lo, hi = min(vals + [0.0]), max(vals + [0.0])
        step = (Fraction(hi) - Fraction(lo)) / (2**bits - 1)
        for i, v in zip(g, vals):
            dv = float(dl[i])
            if dv != dv or abs(dv) == float("inf"):
                probs.append((gi, i, f"group {gi} {vals}: element {i}={v} dequantizes to {dv}", region))
                continue
            tol = 8 * u * (abs(Fraction(v)) + abs(Fraction(lo)) + abs(Fraction(hi))) + 2 ** (bits + 2) * eta
            err = abs(Fraction(dv) - Fraction(v))
            if err > step / 2 + tol * tol_scale:
                probs.append((gi, i, f"group {gi} {vals}: element {i}={v} dequantizes to {dv}: error {float(err):.6g} > half step {float(step/2):.6g} (+tol {float(tol):.3g})", region))
    return probs


def requant_oracle(w, qtype_name, axis, group_size):
    """requantizing the dequantized tensor with the same scale and zero-point gives the same codes (float16/float32)"""
    from optimum.quanto import quantize_weight
    from optimum.quanto.tensor.quantizers import AffineQuantizer

    q_t = qt(qtype_name)
    q = quantize_weight(w, q_t, axis, group_size)
    d = q.dequantize()
    if not torch.isfinite(d).all():
        return []
    q2 = AffineQuantizer.apply(d, q_t, axis, group_size, q._scale, q._zeropoint)
    a, b = q._data.unpack(), q2._data.unpack()
    if not torch.equal(a, b):
        idx = (a != b).nonzero()[0].tolist()
        return [f"requantization changes code at grouped position {idx}: {a[tuple(idx)].item()} -> {b[tuple(idx)].item()}"]
    return []


def size_thresholds(relpaths, lo=24, hi=1 << 15):
    """Integer literals of the CURRENT source of `relpaths` (relative to the repository under check) that sit in a position where
    they can act as a size threshold: comparisons, `//`, `%`, range/split/chunk arguments, constant assignments. The checks
    whose shapes are concrete derive extra shapes from them (just above one and two multiples), so a fast/blocked/cached path that
    only starts beyond the default bounds is still entered. Returns {literal: ["file:line", ...]}."""
    import ast
    import os
    import pathlib

    repo = os.environ.get("QUANTO_REPO", "/repo")
    out = {}
    for rel in relpaths:
        p = pathlib.Path(repo) / rel
        if rel.endswith((".cpp", ".h", ".cu", ".mm")):
            import re

            try:
                for i, line in enumerate(p.read_text().splitlines(), 1):
                    code = line.split("//")[0]
                    if code.lstrip().startswith(("*", "/*", "#include")):
                        continue
                    for tok in re.findall(r"(?<![\w.])(\d+)(?![\w.])", code):
                        if lo <= int(tok) <= hi:
                            out.setdefault(int(tok), []).append(f"{rel}:{i}")
            except Exception:  # noqa
                pass
            continue
        try:
            tree = ast.parse(p.read_text())
        except Exception:  # noqa
            continue

        def lits(n):
            return [c.value for c in ast.walk(n) if isinstance(c, ast.Constant) and type(c.value) is int and lo <= c.value <= hi]

        for n in ast.walk(tree):
            vals = []
            if isinstance(n, ast.Compare):
                vals = lits(n)
            elif isinstance(n, ast.BinOp) and isinstance(n.op, (ast.FloorDiv, ast.Mod)):
                vals = lits(n.right)
            elif isinstance(n, ast.Assign) and isinstance(n.value, ast.Constant):
                vals = lits(n.value)
            elif isinstance(n, ast.Call) and getattr(n.func, "id", getattr(n.func, "attr", "")) in ("range", "split", "chunk", "narrow"):
                vals = lits(n)
            for v in vals:
                if f"{rel}:{n.lineno}" not in out.setdefault(v, []):
                    out[v].append(f"{rel}:{n.lineno}")
    return out


def big_constants(relpaths, lo=1 << 15, hi=1 << 28):
    """integer constants of the CURRENT source beyond the sizes a symbolic run can reach (lo..hi), written as literals or as constant
    expressions (2**24, 16 * 1024 * 1024) in assignments and comparisons: {value: ["file:line", ...]}"""
    import ast
    import os
    import pathlib

    def ev(n):
        if isinstance(n, ast.Constant) and type(n.value) is int:
            return n.value
        if isinstance(n, ast.BinOp) and isinstance(n.op, (ast.Pow, ast.Mult, ast.LShift, ast.Add, ast.Sub, ast.FloorDiv)):
            a, b = ev(n.left), ev(n.right)
            if a is None or b is None or (isinstance(n.op, (ast.Pow, ast.LShift)) and not 0 <= b <= 40):
                return None
            try:
                return {ast.Pow: lambda: a**b, ast.Mult: lambda: a * b, ast.LShift: lambda: a << b, ast.Add: lambda: a + b, ast.Sub: lambda: a - b, ast.FloorDiv: lambda: a // b}[type(n.op)]()
            except Exception:  # noqa
                return None
        return None

    repo = os.environ.get("QUANTO_REPO", "/repo")
    out = {}
    for rel in relpaths:
        try:
            tree = ast.parse((pathlib.Path(repo) / rel).read_text())
        except Exception:  # noqa
            continue
        for n in ast.walk(tree):
            cands = []
            if isinstance(n, (ast.Assign, ast.AnnAssign)) and n.value is not None:
                cands = [n.value]
            elif isinstance(n, ast.Compare):
                cands = [n.left] + list(n.comparators)
            elif isinstance(n, ast.keyword):
                cands = [n.value]
            for c in cands:
                v = ev(c)
                if v is not None and lo <= v <= hi:
                    out.setdefault(v, [])
                    if f"{rel}:{c.lineno}" not in out[v]:
                        out[v].append(f"{rel}:{c.lineno}")
    return out


QUANTIZER_FILES = [
    "optimum/quanto/tensor/optimizers/absmax_optimizer.py", "optimum/quanto/tensor/optimizers/affine_optimizer.py", "optimum/quanto/tensor/optimizers/max_optimizer.py",
    "optimum/quanto/tensor/optimizers/symmetric_optimizer.py", "optimum/quanto/tensor/optimizers/optimizer.py", "optimum/quanto/tensor/quantizers/symmetric.py",
    "optimum/quanto/tensor/quantizers/affine.py", "optimum/quanto/tensor/qweight.py", "optimum/quanto/tensor/qactivation.py", "optimum/quanto/tensor/qbits/group.py",
    "optimum/quanto/tensor/core.py", "optimum/quanto/tensor/qbytes.py",
]


def quantizer_threshold_shapes(hi=1024):
    """2-D / 1-D shapes just above one and two multiples of every integer size threshold in the current source of the scale
    optimizers, quantizers and grouping code (empty on the pinned tree); as element counts as well as dimension lengths."""
    out = []
    for L, where in sorted(size_thresholds(QUANTIZER_FILES, hi=hi).items()):
        for s in ((L + 1, 2), (2, L + 1), (2 * L + 1, 1), (L // 2 + 1, 2), (2, L // 2 + 1)):
            if s not in out:
                out.append(s)
    return out
