#!/bin/bash
# runs each behaviour-preserving rewrite in refactors/ against the checks named in refactors/targets.json (scratch worktree, never /repo):
# every run must exit 0 with no VIOLATION line.  usage: tools_refactor_matrix.sh [tier] [glob, default *] [parallel jobs, default 2]
cd /verif
TIER=${1:-quick}; PAT=${2:-*}; JOBS=${3:-2}
.venv/bin/python - "$PAT" <<'PY' > /tmp/refactor_jobs.$$
import json, sys, glob, os, fnmatch
t = json.load(open('/verif/refactors/targets.json'))
for f in sorted(glob.glob('/verif/refactors/*.diff')):
    b = os.path.basename(f)
    if fnmatch.fnmatch(b, sys.argv[1] + '.diff') or fnmatch.fnmatch(b, sys.argv[1]):
        for c in t.get(b, []):
            print(b, c)
PY
one() {
  out=$(LINES_MAX=400 ./tools_mutant.sh refactors/$1 $2 $3 2>&1)
  ex=$(echo "$out" | grep -o 'exit=[0-9]*' | tail -1)
  nv=$(echo "$out" | grep -c '^VIOLATION')
  ni=$(echo "$out" | grep -c '^INCONCLUSIVE')
  echo "$1 $2 $ex violations=$nv inconclusive=$ni | $(echo "$out" | grep '^\[C' | tail -1)"
}
export -f one
cat /tmp/refactor_jobs.$$ | xargs -P $JOBS -L 1 bash -c 'one $0 $1 '"$TIER"
rm -f /tmp/refactor_jobs.$$
