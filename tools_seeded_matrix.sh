#!/bin/bash
# runs each seeded change against the check of the property it targets (scratch worktree, never /repo) and records the outcome in meta.json
# usage: tools_seeded_matrix.sh [tier] [glob under seeded/, default *] [parallel jobs, default 2]
cd /verif
TIER=${1:-quick}; PAT=${2:-*}; JOBS=${3:-2}
one() {
  d=$1; TIER=$2
  n=$(basename $d); id=${n%%-*}
  out=$(LINES_MAX=400 ./tools_mutant.sh $d/patch.diff $id $TIER 2>&1)
  ex=$(echo "$out" | grep -o 'exit=[0-9]*' | tail -1)
  nv=$(echo "$out" | grep -c '^VIOLATION')
  sm=$(echo "$out" | grep '^\[C' | tail -1)
  .venv/bin/python - "$d/meta.json" "$id" "$ex" "$nv" "$sm" "$TIER" <<'PY'
import json, sys
p, pid, ex, nv, sm, tier = sys.argv[1:7]
m = json.load(open(p))
m["detection"] = m.get("detection") or {}
m["detection"][tier] = dict(check=pid, exit=ex, violation_lines=int(nv), detected=(ex == "exit=1" and int(nv) > 0), summary=sm)
json.dump(m, open(p, "w"), indent=1)
PY
  echo "$n $ex violations=$nv"
}
export -f one
ls -d seeded/$PAT/ | xargs -P $JOBS -I{} bash -c 'one {} '"$TIER"
