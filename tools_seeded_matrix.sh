#!/bin/bash
# runs each seeded change against the check of the property it targets (scratch worktree, never /repo) and records the outcome in meta.json
cd /verif
for d in seeded/*/; do
  n=$(basename $d); id=${n%%-*}
  out=$(LINES_MAX=400 ./tools_mutant.sh $d/patch.diff $id ${1:-quick} 2>&1)
  ex=$(echo "$out" | grep -o 'exit=[0-9]*' | tail -1)
  nv=$(echo "$out" | grep -c '^VIOLATION')
  sm=$(echo "$out" | grep '^\[C' | tail -1)
  .venv/bin/python - "$d/meta.json" "$id" "$ex" "$nv" "$sm" "${1:-quick}" <<'PY'
import json, sys
p, pid, ex, nv, sm, tier = sys.argv[1:7]
m = json.load(open(p))
m["detection"] = m.get("detection") or {}
m["detection"][tier] = dict(check=pid, exit=ex, violation_lines=int(nv), detected=(ex == "exit=1" and int(nv) > 0), summary=sm)
json.dump(m, open(p, "w"), indent=1)
PY
  echo "$n $ex violations=$nv"
done
