#!/bin/bash
# usage: tools_mutant.sh <patch.diff> <CNN> [tier]   -- runs a check against a scratch worktree of /repo with the patch applied
set -e
P=$(realpath "$1"); ID=$2; TIER=${3:-quick}
WT=$(mktemp -d /tmp/mut.XXXXXX)
git -C /repo worktree add -q --detach "$WT" HEAD
trap 'git -C /repo worktree remove --force "$WT" >/dev/null 2>&1; rm -rf "$WT.out"' EXIT
if [ -f "$(dirname "$P")/patch_head.diff" ] && ! git -C "$WT" apply --check "$P" 2>/dev/null; then P="$(dirname "$P")/patch_head.diff"; fi
git -C "$WT" apply "$P"
mkdir -p "$WT.out"
cd /verif
QUANTO_REPO="$WT" PYTHONPATH="$WT" VERIF_OUT="$WT.out" ./check "$ID" "$TIER" 2>&1 | grep -E "VIOLATION|KNOWN-FINDING|HARNESS-ERROR|^\[C|INCONCLUSIVE" | cut -c1-400 | head -${LINES_MAX:-12}
echo "exit=${PIPESTATUS[0]}"
