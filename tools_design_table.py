"""Rewrites section 14 of DESIGN.md (seeded defects and which check catches them) from seeded/*/meta.json."""
import glob
import json
import os

ROOT = os.path.dirname(os.path.abspath(__file__))
rows, rows2, rows3, rows4, rows5, rows6, rows7 = [], [], [], [], [], [], []
for d in sorted(glob.glob(os.path.join(ROOT, "seeded", "*", ""))):
    m = json.load(open(d + "meta.json"))
    if m.get("round") in (2, 3, 4, 5, 6, 7):
        det = (m.get("detection") or {}).get("quick") or {}
        fp = (m.get("detection") or {}).get("first-pass") or {}
        {2: rows2, 3: rows3, 4: rows4, 5: rows5, 6: rows6, 7: rows7}[m.get("round")].append((os.path.basename(d.rstrip("/")), m["property"], (m.get("summary") or "").replace("|", "/").replace("\n", " ")[:260], (m.get("needs_to_manifest") or "").replace("|", "/").replace("\n", " ")[:200],
                      "detected" if fp.get("detected") else ("harness error" if fp.get("exit") == 3 else "missed"),
                      ("detected (%d VIOLATION lines)" % det.get("violation_lines", 0)) if det.get("detected") else (m.get("outside_claim") or f"NOT detected ({det.get('exit')})")))
        continue
    det = (m.get("detection") or {}).get("quick") or {}
    if m.get("neutralised_by_fix"):
        pc = m["detection"].get("pinned-commit", {})
        det = dict(detected=pc.get("detected"), violation_lines=pc.get("violation_lines", 0), exit=pc.get("exit"), on="pinned commit; on the repaired tree this change is no longer a defect (its demo passes)")
    rows.append((os.path.basename(d.rstrip("/")), m["property"], (m.get("summary") or "").replace("|", "/").replace("\n", " ")[:230], (m.get("needs_to_manifest") or "").replace("|", "/").replace("\n", " ")[:200], ("detected (%d VIOLATION lines)" % det.get("violation_lines", 0) if det.get("detected") else f"NOT detected ({det.get('exit')})") + (f" [{det['on']}]" if det.get("on") else "")))
txt = ["## 14. Seeded defects: which check catches which change", "",
       "Each change below was produced by a fresh sub-agent that saw only the text of one property and its own scratch worktree of",
       "/repo (nothing from /verif), asked for a realistic change that breaks the property, still compiles and passes the existing",
       "suite, and needs something specific to manifest. Each was then verified here in a fresh scratch worktree: its demonstration",
       "passes on the clean tree and fails with the patch, and the full suite gives exactly the baseline failure list. They are kept",
       "under `seeded/<id>/` (patch.diff, demo.py, meta.json); `tools_mutant.sh <patch> <CNN>` runs a check against a scratch worktree",
       "with the patch applied (never /repo), `tools_seeded_matrix.sh` fills `meta.json:detection`. 31 first-round changes are kept (the 32nd,",
       "C01-B, is the same change as C16-A); the second round follows below.  Result of the quick tier of the targeted property's check on the repaired tree:", "",
       "| seeded change | what it does | needs, to manifest | targeted check (quick tier) |", "|---|---|---|---|"]
for r in rows:
    txt.append(f"| {r[0]} | {r[2]} | {r[3]} | {r[1]}: {r[4]} |")
nd = sum(1 for r in rows if r[4].startswith("detected"))
txt += ["", f"{nd} of {len(rows)} are reported with a replayed witness (exit 1 and `VIOLATION property=… replay=…`).", "",
        "How the misses of the first pass were closed (the checks were strengthened, not special-cased):", "",
        "* C04-A (a `slice` fast path on packed tensors that mishandles negative dims) — the list of operations that must act on the",
        "  unpacked values had no slicing with negative dimensions; `narrow/select/index` with negative dims and ten more ops were added.",
        "* C04-B (raw-pointer C++ unpack kernel that ignores strides) — the kernel computes below the ATen boundary, so the engine saw",
        "  constants (first pass: harness error, exit 3). The check now detects the lost taint (no input variable in the result's",
        "  support), reports the universal claim as undecided and falls back to a concrete differential run over all 256 byte values",
        "  per layout, which reports the strided disagreement with a replay.",
        "* C05-B (`copy_` rebinding the destination's scale: earlier views go stale) — aliasing programs (view, in-place copy into the",
        "  base, read the view) were added to the catalogue.",
        "* C10-B (an explicitly saved `none` activation qtype no longer resets the target) — a scenario with a streamlined-away",
        "  activation (the state Calibration(streamline=True) leaves) loaded into a same-quantized target was added.",
        "* C13-B (in-place quantization through a grouped view overwrites the caller's weights) — was seen by the write monitor at once,",
        "  but the replay did not reproduce until witnesses were encoded before the call and decoded as fresh base tensors.",
        "* C01 hand mutant (scale transposed on square tensors) — square shapes were missing from the covering shape subset.",
        "", "Hand-written mutants under `mutants/` (floor for round, clamp bound off by one, cast before clamp, wrong-axis scale) are reported",
        "by C01 as well; `floor(x+0.5)` is not (it is not a violation: ties are equidistant).", "",
        "**Refactor corpus (must stay silent).** `refactors/` holds behaviour-preserving rewrites: the EMA written as",
        "`scale + (new - scale)(1 - m)`; `torch.clip` and swapped operand order in quantize/dequantize; `-round(rmin/scale)` for",
        "`round(-rmin/scale)` and `base.amax` on the already absolute tensor in the optimizers; `torch.stack(...).reshape` for `torch.cat`",
        "in the Python unpack kernel and `reshape` for `view` in the integer GEMM wrapper. Run with `tools_mutant.sh` against C12, C01,",
        "C02, C03, C16, C04, C07: every check exits 0 with no VIOLATION line (the first of them exposed the C12 tolerance false alarm",
        "described in section 13, which was corrected). The third round added 32 independently written rewrites (two per property,",
        "`refactors/r3_*.diff` with their equivalence scripts and `r3_verification.json`); `refactors/targets.json` names, for every",
        "rewrite, the checks whose anchored code it touches and `tools_refactor_matrix.sh` runs them all: the last complete run is",
        "`refactors/matrix_quick.log` (every line `exit=0 violations=0`).", ""]
txt += open(os.path.join(ROOT, "seeded", "ROUND2.md")).read().rstrip().split("\n") + ["",
        "| seeded change (round 2) | what it does | needs, to manifest | first pass | after strengthening (quick tier) |", "|---|---|---|---|---|"]
for r in rows2:
    txt.append(f"| {r[0]} | {r[2]} | {r[3]} | {r[4]} | {r[1]}: {r[5]} |")
nd2 = sum(1 for r in rows2 if r[5].startswith("detected"))
nf2 = sum(1 for r in rows2 if r[4] == "detected")
txt += ["", f"Round 2: {nf2} of {len(rows2)} were reported by the checks as they stood before the round; {nd2} of {len(rows2)} are reported now.", ""]
txt += open(os.path.join(ROOT, "seeded", "ROUND3.md")).read().rstrip().split("\n") + ["",
        "| seeded change (round 3) | what it does | needs, to manifest | first pass | after strengthening (quick tier) |", "|---|---|---|---|---|"]
for r in rows3:
    txt.append(f"| {r[0]} | {r[2]} | {r[3]} | {r[4]} | {r[1]}: {r[5]} |")
nd3 = sum(1 for r in rows3 if r[5].startswith("detected"))
nf3 = sum(1 for r in rows3 if r[4] == "detected")
txt += ["", f"Round 3: {nf3} of {len(rows3)} were reported by the checks as they stood before the round; {nd3} of {len(rows3)} are reported now"
        " (C16-R3A is reported by C02, see its row).", ""]
txt += open(os.path.join(ROOT, "seeded", "ROUND4.md")).read().rstrip().split("\n") + ["",
        "| seeded change (round 4) | what it does | needs, to manifest | first pass | after strengthening (quick tier) |", "|---|---|---|---|---|"]
for r in rows4:
    txt.append(f"| {r[0]} | {r[2]} | {r[3]} | {r[4]} | {r[1]}: {r[5]} |")
nd4 = sum(1 for r in rows4 if r[5].startswith("detected"))
nf4 = sum(1 for r in rows4 if r[4] == "detected")
txt += ["", f"Round 4: {nf4} of {len(rows4)} were reported by the check of the targeted property as it stood before the round; {nd4} of {len(rows4)} are reported now.", ""]
txt += open(os.path.join(ROOT, "seeded", "ROUND5.md")).read().rstrip().split("\n") + ["",
        "| seeded change (round 5) | what it does | needs, to manifest | first pass | after strengthening (quick tier) |", "|---|---|---|---|---|"]
for r in rows5:
    txt.append(f"| {r[0]} | {r[2]} | {r[3]} | {r[4]} | {r[1]}: {r[5]} |")
nd5 = sum(1 for r in rows5 if r[5].startswith("detected"))
nf5 = sum(1 for r in rows5 if r[4] == "detected")
txt += ["", f"Round 5: {nf5} of {len(rows5)} were reported by the check of the targeted property as it stood before the round; {nd5} of {len(rows5)} are reported now. "
        "For this round the demonstrations were verified here (clean tree exit 0, patched exit 1); the suite runs are the sub-agents' own (no new failures), not repeated for lack of time.", ""]
txt += open(os.path.join(ROOT, "seeded", "ROUND6.md")).read().rstrip().split("\n") + ["",
        "| seeded change (round 6) | what it does | needs, to manifest | first pass | after strengthening (quick tier) |", "|---|---|---|---|---|"]
for r in rows6:
    txt.append(f"| {r[0]} | {r[2]} | {r[3]} | {r[4]} | {r[1]}: {r[5]} |")
nd6 = sum(1 for r in rows6 if r[5].startswith("detected"))
nf6 = sum(1 for r in rows6 if r[4] == "detected")
txt += ["", f"Round 6: {nf6} of {len(rows6)} were reported by the check of the targeted property as it stood before the round; {nd6} of {len(rows6)} are reported now.", ""]
txt += open(os.path.join(ROOT, "seeded", "ROUND7.md")).read().rstrip().split("\n") + ["",
        "| seeded change (round 7) | what it does | needs, to manifest | first pass | after strengthening (quick tier) |", "|---|---|---|---|---|"]
for r in rows7:
    txt.append(f"| {r[0]} | {r[2]} | {r[3]} | {r[4]} | {r[1]}: {r[5]} |")
nd7 = sum(1 for r in rows7 if r[5].startswith("detected"))
nf7 = sum(1 for r in rows7 if r[4] == "detected")
txt += ["", f"Round 7: {nf7} of {len(rows7)} were reported by the check of the targeted property as it stood before the round; {nd7} of {len(rows7)} are reported now.", ""]
s = open(os.path.join(ROOT, "DESIGN.md")).read()
if "## 14. Seeded defects" in s:
    s = s[: s.index("## 14. Seeded defects")]
open(os.path.join(ROOT, "DESIGN.md"), "w").write(s.rstrip() + "\n\n\n" + "\n".join(txt))
print(nd, "of", len(rows))
