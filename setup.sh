#!/bin/bash
# offline build of the overlay venv: /venv's packages (torch, safetensors, ...) + /repo + z3/cvc5/crosshair/sympy from the wheelhouse
set -e
cd "$(dirname "$0")"
if [ -x .venv/bin/python ] && .venv/bin/python -c "import z3, torch, crosshair, sympy" >/dev/null 2>&1; then exit 0; fi
rm -rf .venv
/venv/bin/python -m venv .venv
SP=$(.venv/bin/python -c "import site; print(site.getsitepackages()[0])")
printf '/venv/lib/python3.12/site-packages\n/repo\n%s\n' "$(pwd)" > "$SP/overlay.pth"
PIP_NO_INDEX=1 .venv/bin/pip install -q --no-index --find-links /opt/veriftools/wheels z3-solver cvc5 crosshair-tool sympy
.venv/bin/python -c "import z3, torch, crosshair, optimum.quanto; print('overlay venv ok', torch.__version__, z3.get_version_string())"
