"""Replay one candidate violation on plain, un-instrumented quanto (no dispatch mode, fresh interpreter).
exit 1: the property is violated by these concrete inputs (prints REPRODUCED and optionally FINDING-KEY: <key>);
exit 0: not reproduced; anything else: crash."""
import importlib
import json
import os
import sys
import warnings

sys.path.insert(0, os.path.dirname(os.path.abspath(__file__)))
warnings.filterwarnings("ignore")


def main():
    rec = json.load(open(sys.argv[1]))
    mod = importlib.import_module(rec["module"])
    import torch

    torch.set_num_threads(1)
    violated, detail, key = mod.replay(rec)
    print(detail)
    if violated:
        print("REPRODUCED on plain quanto")
        for k in ([key] if isinstance(key, str) else (key or [])):
            print("FINDING-KEY: " + k)
        sys.exit(1)
    print("not reproduced")
    sys.exit(0)


main()
