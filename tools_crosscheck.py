"""Second-solver cross-check: re-decides a sample of the SMT-LIB2 queries a check issued with /usr/bin/z3 (4.8.12, another
code base of the same solver family) and with cvc5 (bit-vector / floating-point queries; cvc5 times out on the non-linear
real ones).  Usage: tools_crosscheck.py C01 [C02 ...]   Any disagreement or `(error` line is reported and exits 3."""
import glob
import os
import re
import shutil
import subprocess
import sys
import tempfile

ROOT = os.path.dirname(os.path.abspath(__file__))


def decide(cmd, path, timeout):
    try:
        r = subprocess.run(cmd + [path], capture_output=True, text=True, timeout=timeout + 10)
    except subprocess.TimeoutExpired:
        return "timeout", ""
    out = r.stdout + r.stderr
    if "(error" in out:
        return "error", out[:200]
    for line in out.splitlines():
        if line.strip() in ("sat", "unsat", "unknown"):
            return line.strip(), ""
    return "timeout" if "timeout" in out else "none", out[:200]


def main():
    ids = sys.argv[1:] or ["C04", "C01", "C02"]
    bad = 0
    for pid in ids:
        d = tempfile.mkdtemp(prefix="xcheck_")
        env = dict(os.environ, VERIF_DUMP=d, VERIF_DUMP_EVERY=os.environ.get("VERIF_DUMP_EVERY", "40"), VERIF_OUT=d)
        subprocess.run([os.path.join(ROOT, "check"), pid, "quick"], env=env, capture_output=True, text=True)
        files = sorted(glob.glob(os.path.join(d, "*.smt2")))[:60]
        agree = {"z3-4.8.12": 0, "cvc5": 0}
        inconclusive = {"z3-4.8.12": 0, "cvc5": 0}
        for f in files:
            exp = re.search(r"expected: (\w+)", open(f).readline()).group(1)
            txt = open(f).read()
            isfp = "FloatingPoint" in txt or "fp." in txt
            isnra = "Real" in txt and ("*" in txt or "/" in txt)
            for name, cmd in (("z3-4.8.12", ["/usr/bin/z3", "-T:60"]), ("cvc5", ["cvc5", "--tlimit=60000"] + (["--fp-exp"] if isfp else []))):
                if name == "cvc5" and isnra:
                    continue
                v, msg = decide(cmd, f, 60)
                if v in ("sat", "unsat"):
                    if v == exp:
                        agree[name] += 1
                    else:
                        bad += 1
                        print(f"DISAGREEMENT {pid} {os.path.basename(f)}: z3-5.1 {exp}, {name} {v}")
                else:
                    inconclusive[name] += 1
                    if v == "error":
                        print(f"note {pid} {name} error on {os.path.basename(f)}: {msg}")
        print(f"{pid}: {len(files)} sampled queries; agreeing verdicts {agree}; no verdict within 60 s {inconclusive}")
        shutil.rmtree(d, ignore_errors=True)
    sys.exit(3 if bad else 0)


main()
