"""dev helper: run selected cases of one check and print their queries.  usage: .venv/bin/python tools_onecase.py c02 quick "c['kind']=='group3' and len(c['perm'])==4" """
import importlib, json, sys, collections
from symt import harness

modname = "checks." + sys.argv[1].lower()
tier = sys.argv[2]
pred = eval("lambda c: " + sys.argv[3])
mod = importlib.import_module(modname)
cases = [c for c in mod.cases(tier, 0) if pred(c)]
print(len(cases), "cases")
out = harness.run_cases(modname, cases, 0, deadline=getattr(mod, "CASE_DEADLINE", {}).get(tier, 300.0))
for r in out:
    v = collections.Counter((q["clause"], q["verdict"]) for q in r["queries"])
    print(json.dumps(r["case"], default=str)[:200], "wall", r.get("wall"), dict(v), "cands", len(r["candidates"]), "side_fail", sum(1 for s in r["side"] if not s["ok"]))
    if r.get("error"):
        print("ERROR", r["error"])
    for q in r["queries"]:
        if q["verdict"] != "unsat":
            print("   ", q)
    for c in r["candidates"][:5]:
        print("   CAND", c["clause"], c.get("note", "")[:200])
