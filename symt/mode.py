"""Concolic symbolic execution of real torch code at the ATen boundary.

`SymMode` is a TorchDispatchMode.  Every ATen call is run concretely by the real kernel; when one of
its tensor operands has symbolic storage the call is also run symbolically by a transfer function
that maps the terms (symt.terms.T) attached to the input elements to terms for the output elements.
Terms live in a shadow memory keyed by tensor storage and are addressed through the real
storage_offset/size/stride of each tensor, so views, slices, transposes and in-place writes into
views need no model.
"""
import itertools
import math

import numpy as np
import torch
from torch.utils._python_dispatch import TorchDispatchMode

from . import terms as tm
from .terms import BOOL, FLOATS, INTS, T

aten = torch.ops.aten


class Unsupported(Exception):
    pass


class ModelMismatch(Exception):
    """a transfer function disagrees with the real kernel on the seed: harness error, never a pass"""


def _tolist(t):
    """concrete values of a plain tensor as Python numbers (called with the mode disabled)"""
    t = t.detach()
    if t.dtype in (tm.E4M3, tm.E5M2):
        t = t.to(torch.float32)
    if t.dtype == torch.bfloat16 or t.dtype == torch.float16:
        t = t.to(torch.float32)
    return t.reshape(-1).tolist()


def _positions(t):
    """flat storage index of every element of t, as an ndarray of t.shape"""
    shape = tuple(t.shape)
    pos = np.full(shape, t.storage_offset(), dtype=np.int64)
    for d, (n, s) in enumerate(zip(shape, t.stride())):
        idx = np.arange(n, dtype=np.int64) * s
        pos += idx.reshape([n if i == d else 1 for i in range(len(shape))])
    return pos


def obj_array(shape, flat):
    a = np.empty(len(flat), dtype=object)
    for i, v in enumerate(flat):
        a[i] = v
    return a.reshape(shape)


def umap(f, *arrs):
    arrs = np.broadcast_arrays(*arrs)
    out = np.empty(arrs[0].shape, dtype=object)
    flat = [a.reshape(-1) for a in arrs]
    o = out.reshape(-1)
    for i in range(o.size):
        o[i] = f(*(a[i] for a in flat))
    return out


VIEW_OK = True


class SymMode(TorchDispatchMode):
    def __init__(self, ctx=None, validate=True, protect=None):
        super().__init__()
        self.ctx = ctx or tm.Ctx()
        self.validate = validate
        self.shadow = {}  # storage cdata -> [storage, mem list, dtype]
        self.path = []  # (bool term, concrete outcome, kind)
        self.oplog = {}  # op name -> count (symbolic executions)
        self.opaque_ops = set()
        self.validated = 0
        self.protected = {}  # storage cdata -> label : writes are recorded as violations of C13
        self.writes_to_protected = []
        self.concretized = []
        self.float_sum_nodes = 0
        self.taint_lost = []

    # ------------------------------------------------------------------ shadow memory
    @staticmethod
    def _key(t):
        return t.untyped_storage()._cdata

    def is_sym(self, t):
        return isinstance(t, torch.Tensor) and type(t) in (torch.Tensor, torch.nn.Parameter) and t.device.type == "cpu" and self._key(t) in self.shadow

    def _lift_storage(self, t):
        """make the (concrete) storage of t symbolic-capable by lifting every element to a constant"""
        k = self._key(t)
        if k in self.shadow:
            return self.shadow[k]
        st = t.untyped_storage()
        n = st.nbytes() // t.element_size()
        flat = torch.empty(0, dtype=t.dtype).set_(st)
        vals = _tolist(flat[:n]) if n else []
        c = self.ctx
        mem = [c.const(v, t.dtype) for v in vals]
        ent = [st, mem, t.dtype]
        self.shadow[k] = ent
        return ent

    def _fresh_storage(self, t):
        st = t.untyped_storage()
        n = st.nbytes() // t.element_size()
        ent = [st, [None] * n, t.dtype]
        self.shadow[self._key(t)] = ent
        return ent

    def read(self, t):
        """ndarray(object) of terms for plain tensor t; concrete tensors are lifted to constants (not stored)"""
        if not isinstance(t, torch.Tensor):
            raise TypeError(t)
        if t.device.type != "cpu":
            raise Unsupported("non-cpu tensor")
        shape = tuple(t.shape)
        k = self._key(t) if t.numel() or True else None
        ent = self.shadow.get(k)
        if ent is None:
            c = self.ctx
            dt = t.dtype
            if t.numel() == 0:
                return np.empty(shape, dtype=object)
            vals = _tolist(t)
            return obj_array(shape, [c.const(v, dt) for v in vals])
        st, mem, dt = ent
        if t.numel() == 0:
            return np.empty(shape, dtype=object)
        if dt != t.dtype:
            return self._read_reinterpreted(t, ent)
        pos = _positions(t).reshape(-1)
        out = np.empty(pos.size, dtype=object)
        vals = None
        for i, p in enumerate(pos):
            v = mem[p]
            if v is None:
                # never written symbolically (e.g. torch.empty then partially written): concrete content
                if vals is None:
                    vals = _tolist(t)
                v = self.ctx.const(vals[i], dt)
            out[i] = v
        return out.reshape(shape)

    def _read_reinterpreted(self, t, ent):
        """storage written as dtype S is read through a tensor of another dtype D (byte copies of storages, view(dtype))"""
        st, mem, sdt = ent
        c = self.ctx
        D, S = t.dtype, sdt
        ds, ss = t.element_size(), torch.empty(0, dtype=S).element_size()
        pos = _positions(t).reshape(-1)
        vals = _tolist(t)
        out = np.empty(pos.size, dtype=object)
        for i, p in enumerate(pos):
            boff = int(p) * ds
            if ds == ss:
                src = mem[boff // ss]
                out[i] = c.const(vals[i], D) if src is None else c.bitcast(src, D, vals[i])
            elif ds < ss:
                src = mem[boff // ss]
                out[i] = c.const(vals[i], D) if src is None else c.byte_of(src, boff % ss, D, vals[i])
            else:
                parts = [mem[boff // ss + k] for k in range(ds // ss)]
                out[i] = c.const(vals[i], D) if any(x is None for x in parts) else c.from_parts(parts, D, vals[i])
        return out.reshape(tuple(t.shape))

    def write(self, t, arr, fresh=False):
        """store terms for the elements of plain tensor t (through its real strides)"""
        if t.numel() == 0:
            return
        k = self._key(t)
        ent = self.shadow.get(k)
        if ent is None:
            ent = self._fresh_storage(t) if fresh else self._lift_storage(t)
        st, mem, dt = ent
        if dt != t.dtype:
            if all(x is None for x in mem) or fresh:
                ent[2] = t.dtype
                n = st.nbytes() // t.element_size()
                ent[1] = mem = [None] * n
            else:
                raise Unsupported(f"dtype reinterpretation on write {dt}->{t.dtype}")
        if k in self.protected and not fresh:
            self.writes_to_protected.append(self.protected[k])
        pos = _positions(t).reshape(-1)
        flat = np.broadcast_to(arr, tuple(t.shape)).reshape(-1)
        for p, v in zip(pos, flat):
            mem[p] = v

    def symbolic(self, t, name, pred=None):
        """make every element of the real tensor t a fresh variable whose seed is its current value"""
        assert type(t) in (torch.Tensor, torch.nn.Parameter), type(t)
        shape = tuple(t.shape)
        vals = _tolist(t)
        c = self.ctx
        out = []
        for i, idx in enumerate(np.ndindex(shape) if shape else [()]):
            nm = f"{name}[{','.join(map(str, idx))}]" if shape else name
            out.append(c.var(nm, t.dtype, vals[i]))
        arr = obj_array(shape, out)
        self._lift_storage(t)
        self.write(t, arr)
        return arr

    def has_symbols(self, t):
        """does plain tensor t hold at least one non-constant term? (lifted-but-constant storages do not count)"""
        if not self.is_sym(t) or t.numel() == 0:
            return False
        return any(x.op != "const" for x in self.read(t).reshape(-1))

    def protect(self, t, label):
        self.protected[self._key(t)] = label

    def unprotect_all(self):
        self.protected.clear()

    # ------------------------------------------------------------------ dispatch
    def __torch_dispatch__(self, func, types, args=(), kwargs=None):
        kwargs = kwargs or {}
        if any(t not in (torch.Tensor, torch.nn.Parameter) for t in types):
            return NotImplemented
        ns = func.namespace
        if ns.startswith("quanto"):
            # torch.library python kernels are opaque to a mode: re-enter with the mode on, with the key the
            # dispatcher itself would select on CPU
            name = func.name()
            key = "CPU" if torch._C._dispatch_has_kernel_for_dispatch_key(name, "CPU") else "CompositeExplicitAutograd"
            with self:
                out = func._op_dk(getattr(torch._C.DispatchKey, key), *args, **kwargs)
            # taint continuity: a library kernel fed symbolic data must return symbolic data; if it does not, the kernel
            # computed below the ATen boundary (e.g. raw pointers in a compiled extension) and nothing may be concluded
            ins = [a for a in itertools.chain(args, kwargs.values()) if isinstance(a, torch.Tensor)]
            outs_ = [out] if isinstance(out, torch.Tensor) else [o for o in (out if isinstance(out, (list, tuple)) else []) if isinstance(o, torch.Tensor)]
            if any(self.is_sym(a) for a in ins) and outs_ and not any(self.is_sym(o) or type(o) is not torch.Tensor for o in outs_):
                self.taint_lost.append(str(func))
            return out
        tens = []
        for a in itertools.chain(args, kwargs.values()):
            if isinstance(a, torch.Tensor):
                tens.append(a)
            elif isinstance(a, (list, tuple)):
                tens.extend(x for x in a if isinstance(x, torch.Tensor))
        anysym = any(self.is_sym(t) for t in tens)
        if anysym and func.overloadpacket not in HANDLERS and torch._C._dispatch_has_kernel_for_dispatch_key(func.name(), "CompositeImplicitAutograd"):
            # composite ops reach a mode un-decomposed when called from inside a kernel: run the decomposition under the mode
            with self:
                r = func.decompose(*args, **kwargs)
            if r is not NotImplemented:
                return r
        mutable = func._schema.is_mutable
        if mutable and self.protected:
            self._check_protected(func, args, kwargs)
        if anysym and mutable:
            # snapshot: lift every concrete operand storage BEFORE the real kernel mutates it
            for t in tens:
                if t.device.type == "cpu" and not self.is_sym(t):
                    self._lift_storage(t)
        elif mutable and not anysym:
            # concrete in-place op on concrete storage: nothing symbolic; but if the destination were symbolic it
            # would have been caught by anysym
            pass
        if anysym and func in PRE_HOOKS:
            pre = PRE_HOOKS[func](self, func, args, kwargs)
        else:
            pre = None
        res = func(*args, **kwargs)
        if not anysym:
            return res
        nm = str(func)
        self.oplog[nm] = self.oplog.get(nm, 0) + 1
        return self.transfer(func, args, kwargs, res, pre)

    def _check_protected(self, func, args, kwargs):
        sch = func._schema
        for i, a in enumerate(sch.arguments):
            if a.alias_info is not None and a.alias_info.is_write:
                v = args[i] if i < len(args) else kwargs.get(a.name)
                vs = v if isinstance(v, (list, tuple)) else [v]
                for x in vs:
                    if isinstance(x, torch.Tensor) and x.device.type == "cpu":
                        k = self._key(x)
                        if k in self.protected:
                            self.writes_to_protected.append((self.protected[k], str(func)))

    # ------------------------------------------------------------------ transfer
    def transfer(self, func, args, kwargs, res, pre):
        packet = func.overloadpacket
        # 1. scalar extraction
        if func in SCALAR_OUT:
            return SCALAR_OUT[func](self, func, res, args, kwargs)
        outs = [res] if isinstance(res, torch.Tensor) else [r for r in (res if isinstance(res, (list, tuple)) else []) if isinstance(r, torch.Tensor)]
        # 2. views: the result aliases a symbolic input's storage and nothing is mutated
        if not func._schema.is_mutable and outs:
            in_keys = {self._key(a) for a in self._tensor_args(args, kwargs)}
            if all(self._key(o) in in_keys for o in outs):
                return res
        h = HANDLERS.get(packet)
        try:
            if h is not None:
                h(self, func, res, args, kwargs, pre)
            elif packet in MOVE_OPS:
                self.move(func, res, args, kwargs)
            else:
                self.opaque(func, res, args, kwargs)
        except Unsupported:
            raise
        if self.validate:
            for o in outs:
                self.check(func, o)
            if func._schema.is_mutable:
                for a in self._written_args(func, args, kwargs):
                    self.check(func, a)
        return res

    def _tensor_args(self, args, kwargs):
        for a in itertools.chain(args, kwargs.values()):
            if isinstance(a, torch.Tensor):
                yield a
            elif isinstance(a, (list, tuple)):
                for x in a:
                    if isinstance(x, torch.Tensor):
                        yield x

    def _written_args(self, func, args, kwargs):
        out = []
        for i, a in enumerate(func._schema.arguments):
            if a.alias_info is not None and a.alias_info.is_write:
                v = args[i] if i < len(args) else kwargs.get(a.name)
                if isinstance(v, torch.Tensor):
                    out.append(v)
        return out

    def check(self, func, t):
        """the terms now attached to t must evaluate (under the seed) to exactly what the real kernel produced"""
        if t.numel() == 0 or t.device.type != "cpu" or not self.is_sym(t):
            return
        real = _tolist(t)
        terms = self.read(t).reshape(-1)
        dt = t.dtype
        for i, (term, rv) in enumerate(zip(terms, real)):
            if dt == BOOL:
                ok = bool(term.cv) == bool(rv)
            elif dt in INTS:
                ok = term.cv == rv
            else:
                ok = tm.same_value(term.cv, rv) or (term.cv == 0.0 and rv == 0.0)  # sign of zero: see DESIGN 4
                if not ok and term.op in ("sum", "dot", "uf"):
                    ok = True
            if not ok:
                raise ModelMismatch(f"op model mismatch in {func} element {i}: model {term.cv!r} real {rv!r} term {term.pretty(3)}")
        self.validated += len(real)

    # ------------------------------------------------------------------ generic kinds
    def move(self, func, res, args, kwargs):
        """pure data movement: provenance by running the real kernel on int64 element-id tensors"""
        class Arr:
            def __init__(self, arr, dt):
                self.arr, self.dt, self.size = arr, dt, arr.size

        real_srcs = []

        def to_ids3(a):
            if isinstance(a, torch.Tensor) and not _is_index_arg(func, a, args, kwargs):
                base = sum(s.size for s in real_srcs) + 1
                real_srcs.append(Arr(self.read(a).reshape(-1), a.dtype))
                ids = torch.arange(base, base + a.numel(), dtype=torch.int64).reshape(a.shape)
                if a.numel() and not a.is_contiguous() and _dense_strides(a):
                    tmp = torch.empty_strided(tuple(a.shape), a.stride(), dtype=torch.int64)
                    tmp.copy_(ids)
                    ids = tmp
                return ids
            if isinstance(a, (list, tuple)):
                return type(a)(to_ids3(x) for x in a)
            return a

        kw = {k: to_ids3(v) for k, v in kwargs.items() if k not in ("dtype", "memory_format", "pin_memory", "non_blocking", "layout", "device")}
        if "memory_format" in kwargs:
            kw["memory_format"] = kwargs["memory_format"]
        if func.overloadpacket in (aten.index, aten._unsafe_index):
            # indices (args[1]) are positions, not data; symbolic indices are not supported
            if any(isinstance(i, torch.Tensor) and self.has_symbols(i) for i in args[1]):
                raise Unsupported("symbolic index tensor")
            ids = func(to_ids3(args[0]), args[1])
            padval = 0
        elif func.overloadpacket is aten.constant_pad_nd:
            a = list(args)
            a[0] = to_ids3(a[0])
            ids = func(a[0], a[1], 0)
            padval = a[2] if len(a) > 2 else kwargs.get("value", 0)
        else:
            ids = func(*[to_ids3(a) for a in args], **kw)
            padval = 0
        lookup = [None]
        for s in real_srcs:
            for x in s.arr:
                lookup.append((x, s.dt))
        outs = [res] if isinstance(res, torch.Tensor) else list(res)
        idl = [ids] if isinstance(ids, torch.Tensor) else list(ids)
        c = self.ctx
        for o, idt in zip(outs, idl):
            flat = idt.reshape(-1).tolist()
            terms = []
            for j in flat:
                if j == 0:
                    terms.append(c.const(padval, o.dtype))
                else:
                    x, sdt = lookup[j]
                    terms.append(x if sdt == o.dtype else c.cast(x, o.dtype))
            self.write(o, obj_array(tuple(o.shape), terms), fresh=True)

    def opaque(self, func, res, args, kwargs):
        """unknown / heavy kernel: each output element is an uninterpreted function of the static arguments and of
        ALL input element terms (equal calls give equal terms; nothing else is known)."""
        name = str(func)
        self.opaque_ops.add(name)
        c = self.ctx
        flat_in = []
        statics = []

        def walk(a):
            if isinstance(a, torch.Tensor):
                statics.append(("T", tuple(a.shape), str(a.dtype)))
                flat_in.extend(self.read(a).reshape(-1).tolist())
            elif isinstance(a, (list, tuple)):
                statics.append("[")
                for x in a:
                    walk(x)
                statics.append("]")
            else:
                statics.append(repr(a))

        for a in args:
            walk(a)
        for k in sorted(kwargs):
            statics.append(k)
            walk(kwargs[k])
        statics = tuple(statics)
        outs = [res] if isinstance(res, torch.Tensor) else [r for r in res if isinstance(r, torch.Tensor)] if isinstance(res, (list, tuple)) else []
        if func._schema.is_mutable:
            outs = outs + [a for a in self._written_args(func, args, kwargs) if all(a is not o for o in outs)]
        for j, o in enumerate(outs):
            if o.numel() == 0:
                continue
            vals = _tolist(o)
            terms = [c.uf(f"{name}#{j}", o.dtype, statics + (i,), flat_in, v if o.dtype != BOOL else bool(v)) for i, v in enumerate(vals)]
            # an in-place opaque op overwrites its destination
            self.write(o, obj_array(tuple(o.shape), terms), fresh=self._key(o) not in self.shadow)

    # ------------------------------------------------------------------ operand helpers
    def terms_of(self, a, dt=None):
        """terms of tensor or python scalar operand, optionally cast to dt"""
        c = self.ctx
        if isinstance(a, torch.Tensor):
            arr = self.read(a)
            if dt is not None and a.dtype != dt:
                arr = umap(lambda x: c.cast(x, dt), arr)
            return arr
        if isinstance(a, T):
            out = np.empty((), dtype=object)
            out[()] = a if dt is None or a.dt == dt else c.cast(a, dt)
            return out
        out = np.empty((), dtype=object)
        if dt is None:
            dt = torch.bool if isinstance(a, bool) else torch.int64 if isinstance(a, int) else torch.float64
        out[()] = c.const(a, dt)
        return out


def _dense_strides(a):
    # strides form a permutation of a contiguous layout (so empty_strided reproduces it without overlap)
    pairs = sorted(zip(a.stride(), a.shape), reverse=True)
    exp = 1
    for s, n in reversed(pairs):
        if n == 1:
            continue
        if s != exp:
            return False
        exp *= n
    return True


def _is_index_arg(func, a, args, kwargs):
    """tensors that are indices (not data) for data-movement kernels"""
    p = func.overloadpacket
    if p in (aten.index_select, aten.gather, aten.take, aten.embedding):
        names = [x.name for x in func._schema.arguments]
        for i, n in enumerate(names):
            v = args[i] if i < len(args) else kwargs.get(n)
            if v is a and n in ("index", "indices"):
                return True
    return False


# ---------------------------------------------------------------------- scalar extraction / branching
def _scalar_out(self, func, res, args, kwargs):
    t = args[0]
    term = self.read(t).reshape(-1)[0]
    if term.op == "const":
        return res
    if isinstance(res, bool) or t.dtype == BOOL:
        self.path.append((term if term.dt == BOOL else self.ctx.cast(term, BOOL), bool(res), "branch"))
    else:
        c = self.ctx
        self.path.append((c.cmp("eq", term, c.const(term.cv, term.dt)), True, "concretize"))
        self.concretized.append((str(func), term))
    return res


def _equal_out(self, func, res, args, kwargs):
    a, b = args[0], args[1]
    c = self.ctx
    if tuple(a.shape) != tuple(b.shape):
        return res
    A, B = self.read(a).reshape(-1), self.read(b).reshape(-1)
    if a.dtype != b.dtype:
        return res
    acc = None
    for x, y in zip(A, B):
        e = c.cmp("eq", x, y) if x is not y else c.const(True, BOOL)
        acc = e if acc is None else c.bin("and", BOOL, acc, e)
    if acc is None or acc.op == "const":
        return res
    self.path.append((acc, bool(res), "branch"))
    return res


def _allclose_out(self, func, res, args, kwargs):
    """torch.allclose(a, b, rtol, atol): all(|a - b| <= atol + rtol * |b|) - a data-dependent branch"""
    a, b = args[0], args[1]
    rtol = args[2] if len(args) > 2 else kwargs.get("rtol", 1e-5)
    atol = args[3] if len(args) > 3 else kwargs.get("atol", 1e-8)
    c = self.ctx
    if tuple(a.shape) != tuple(b.shape) and a.numel() != 1 and b.numel() != 1:
        return res
    dt = torch.result_type(a, b)
    if dt not in FLOATS:
        return res
    A, B = np.broadcast_arrays(self.terms_of(a, dt), self.terms_of(b, dt))
    acc = None
    for x, y in zip(A.reshape(-1), B.reshape(-1)):
        diff = c.un("abs", dt, c.bin("sub", dt, x, y))
        bound = c.bin("add", dt, c.const(atol, dt), c.bin("mul", dt, c.const(rtol, dt), c.un("abs", dt, y)))
        e = c.cmp("le", diff, bound)
        acc = e if acc is None else c.bin("and", BOOL, acc, e)
    if acc is None or acc.op == "const":
        return res
    self.path.append((acc, bool(res), "branch"))
    return res


SCALAR_OUT = {
    aten.allclose.default: _allclose_out,
    aten._local_scalar_dense.default: _scalar_out,
    aten.is_nonzero.default: _scalar_out,
    aten.equal.default: _equal_out,
}

PRE_HOOKS = {}
HANDLERS = {}
MOVE_OPS = {
    aten.clone, aten.contiguous, aten.cat, aten.stack, aten.index_select, aten.repeat, aten.flip, aten.constant_pad_nd,
    aten.roll, aten.gather, aten.take, aten.tril, aten.triu, aten.index, aten._unsafe_index, aten.narrow_copy,
    aten.unfold_copy, aten.repeat_interleave, aten.select_scatter, aten.slice_scatter, aten.diagonal_copy,
    aten.embedding, aten.im2col, aten.expand_copy, aten.permute_copy, aten.view_copy, aten.t_copy, aten.squeeze_copy,
    aten.unsqueeze_copy, aten.transpose_copy, aten.split_with_sizes_copy, aten._reshape_copy, aten.lift_fresh,
    aten.lift_fresh_copy, aten.alias_copy, aten.detach_copy,
}


def handler(*packets):
    def deco(f):
        for p in packets:
            HANDLERS[p] = f
        return f

    return deco


def _arg(func, args, kwargs, name, default=None):
    for i, a in enumerate(func._schema.arguments):
        if a.name == name:
            if i < len(args):
                return args[i]
            return kwargs.get(name, default if default is not None else (a.default_value if a.has_default_value() else None))
    return default


def _is_cpu_scalar_like(a):
    """TensorIterator::is_cpu_scalar: a python number, or a tensor with a single element (all broadcast)"""
    if isinstance(a, torch.Tensor):
        return a.numel() == 1 and a.device.type == "cpu"
    return True


def _out_tensor(func, res, args, kwargs):
    return res


LOW = (tm.F16, tm.BF16)


def _float_operand(self, a, rdt, allow_wide_scalar):
    """terms of operand a for a float op whose common dtype is rdt.  For the reduced float dtypes, CPU kernels
    compute in float32 and read a 'cpu scalar' operand from its ORIGINAL dtype in float32
    (binary_kernel_reduced_floating_point_helper: iter.original_scalar_value<opmath_t>)."""
    c = self.ctx
    if isinstance(a, torch.Tensor):
        arr = self.read(a)
        if a.dtype == rdt:
            return arr, rdt
        if rdt in LOW and allow_wide_scalar and a.numel() == 1 and a.dtype in (tm.F32, tm.F64):
            return umap(lambda x: c.cast(x, tm.F32), arr), tm.F32
        return umap(lambda x: c.cast(x, rdt), arr), rdt
    out = np.empty((), dtype=object)
    if rdt in LOW and allow_wide_scalar:
        v32 = tm.fround_fmt(float(a), tm.F32)
        if tm.fround_fmt(v32, rdt) == v32 or v32 != v32:
            out[()] = c.const(v32, rdt)
            return out, rdt
        out[()] = c.const(v32, tm.F32)
        return out, tm.F32
    out[()] = c.const(float(a), rdt)
    return out, rdt


def _binary_float(self, op, rdt, a, b, scalar_rule=True):
    c = self.ctx
    A, da = _float_operand(self, a, rdt, scalar_rule and _is_cpu_scalar_like(a) and not _is_cpu_scalar_like(b) or (scalar_rule and not isinstance(a, torch.Tensor)))
    B, db = _float_operand(self, b, rdt, scalar_rule and _is_cpu_scalar_like(b) and not _is_cpu_scalar_like(a) or (scalar_rule and not isinstance(b, torch.Tensor)))
    if da == rdt and db == rdt:
        return umap(lambda x, y: c.bin(op, rdt, x, y), A, B)
    # mixed: compute in float32, round once to rdt
    f32 = tm.F32
    return umap(lambda x, y: c.cast(c.bin(op, f32, c.cast(x, f32), c.cast(y, f32)), rdt), A, B)


def _binary(self, op, res, a, b):
    rdt = res.dtype
    c = self.ctx
    if rdt in FLOATS:
        return _binary_float(self, op, rdt, a, b)
    A = self.terms_of(a, rdt)
    B = self.terms_of(b, rdt)
    return umap(lambda x, y: c.bin(op, rdt, x, y), A, B)


def _store(self, func, res, args, kwargs, S):
    """store result terms: into `out`/self for mutable schemas, else into the fresh result"""
    if func._schema.is_mutable:
        dest = kwargs.get("out", None)
        if dest is None:
            dest = args[0]
        self.write(dest, S)
    else:
        self.write(res, S, fresh=True)


def _mk_binary(op):
    def h(self, func, res, args, kwargs, pre):
        a, b = args[0], args[1]
        alpha = kwargs.get("alpha", args[2] if len(args) > 2 and op in ("add", "sub") else 1)
        if alpha != 1:
            raise Unsupported(f"{func} alpha={alpha}")
        out = res if isinstance(res, torch.Tensor) else args[0]
        _store(self, func, res, args, kwargs, _binary(self, op, out, a, b))

    return h


HANDLERS[aten.add] = _mk_binary("add")
HANDLERS[aten.add_] = HANDLERS[aten.add]
HANDLERS[aten.sub] = _mk_binary("sub")
HANDLERS[aten.sub_] = HANDLERS[aten.sub]
HANDLERS[aten.mul] = _mk_binary("mul")
HANDLERS[aten.mul_] = HANDLERS[aten.mul]
HANDLERS[aten.maximum] = _mk_binary("max")
HANDLERS[aten.minimum] = _mk_binary("min")
HANDLERS[aten.bitwise_and] = _mk_binary("and")
HANDLERS[aten.bitwise_and_] = HANDLERS[aten.bitwise_and]
HANDLERS[aten.__and__] = HANDLERS[aten.bitwise_and]
HANDLERS[aten.__iand__] = HANDLERS[aten.bitwise_and]
HANDLERS[aten.bitwise_or] = _mk_binary("or")
HANDLERS[aten.bitwise_or_] = HANDLERS[aten.bitwise_or]
HANDLERS[aten.__or__] = HANDLERS[aten.bitwise_or]
HANDLERS[aten.__ior__] = HANDLERS[aten.bitwise_or]
HANDLERS[aten.bitwise_xor] = _mk_binary("xor")
HANDLERS[aten.bitwise_xor_] = HANDLERS[aten.bitwise_xor]
HANDLERS[aten.__xor__] = HANDLERS[aten.bitwise_xor]
HANDLERS[aten.logical_and] = _mk_binary("and")
HANDLERS[aten.logical_or] = _mk_binary("or")


@handler(aten.rsub)
def _rsub(self, func, res, args, kwargs, pre):
    _store(self, func, res, args, kwargs, _binary(self, "sub", res, args[1], args[0]))


@handler(aten.div, aten.div_, aten.true_divide)
def _div(self, func, res, args, kwargs, pre):
    a, b = args[0], args[1]
    mode = kwargs.get("rounding_mode")
    out = res
    rdt = out.dtype
    c = self.ctx
    if rdt in FLOATS:
        S = _binary_float(self, "div", rdt, a, b)
        if mode == "floor":
            S = umap(lambda x: c.un("floor", rdt, x), S)
        elif mode == "trunc":
            S = umap(lambda x: c.un("trunc", rdt, x), S)
    else:
        if mode is None:
            raise Unsupported("int true-division result")
        A, B = self.terms_of(a, rdt), self.terms_of(b, rdt)
        S = umap(lambda x, y: c.bin("floordiv" if mode == "floor" else "truncdiv", rdt, x, y), A, B)
    _store(self, func, res, args, kwargs, S)


@handler(aten.floor_divide)
def _floordiv(self, func, res, args, kwargs, pre):
    rdt = res.dtype
    c = self.ctx
    if rdt in FLOATS:
        S = umap(lambda x: c.un("floor", rdt, x), _binary_float(self, "div", rdt, args[0], args[1]))
    else:
        A, B = self.terms_of(args[0], rdt), self.terms_of(args[1], rdt)
        S = umap(lambda x, y: c.bin("floordiv", rdt, x, y), A, B)
    _store(self, func, res, args, kwargs, S)


def _shift(op):
    def h(self, func, res, args, kwargs, pre):
        rdt = res.dtype
        c = self.ctx
        A, B = self.terms_of(args[0], rdt), self.terms_of(args[1], rdt)
        _store(self, func, res, args, kwargs, umap(lambda x, y: c.bin(op, rdt, x, y), A, B))

    return h


for _p in (aten.__lshift__, aten.__ilshift__, aten.bitwise_left_shift, aten.bitwise_left_shift_):
    HANDLERS[_p] = _shift("shl")
for _p in (aten.__rshift__, aten.__irshift__, aten.bitwise_right_shift, aten.bitwise_right_shift_):
    HANDLERS[_p] = _shift("shr")


def _mk_unary(op):
    def h(self, func, res, args, kwargs, pre):
        if op == "round" and (kwargs.get("decimals", 0) != 0 or len(args) > 1):
            raise Unsupported("round with decimals")
        rdt = res.dtype
        c = self.ctx
        A = self.terms_of(args[0], rdt)
        if rdt in INTS and op in ("round", "floor", "ceil", "trunc"):
            S = A
        else:
            S = umap(lambda x: c.un(op, rdt, x), A)
        _store(self, func, res, args, kwargs, S)

    return h


for _n in ("neg", "abs", "round", "floor", "ceil", "trunc", "sign", "reciprocal", "sqrt"):
    HANDLERS[getattr(aten, _n)] = _mk_unary(_n)
    if hasattr(aten, _n + "_"):
        HANDLERS[getattr(aten, _n + "_")] = HANDLERS[getattr(aten, _n)]
HANDLERS[aten.bitwise_not] = _mk_unary("not")
HANDLERS[aten.logical_not] = _mk_unary("not")


@handler(aten.relu, aten.relu_)
def _relu(self, func, res, args, kwargs, pre):
    rdt = res.dtype
    c = self.ctx
    zero = c.const(0, rdt)
    # clamp_min(x, 0): NaN propagates
    S = umap(lambda x: c.bin("max", rdt, x, zero), self.terms_of(args[0], rdt))
    _store(self, func, res, args, kwargs, S)


@handler(aten.clamp, aten.clamp_, aten.clamp_min, aten.clamp_max, aten.clamp_min_, aten.clamp_max_, aten.clip, aten.hardtanh)
def _clamp(self, func, res, args, kwargs, pre):
    p = func.overloadpacket
    x = args[0]
    if p in (aten.clamp_min, aten.clamp_min_):
        lo, hi = args[1], None
    elif p in (aten.clamp_max, aten.clamp_max_):
        lo, hi = None, args[1]
    else:
        lo = args[1] if len(args) > 1 else kwargs.get("min", kwargs.get("min_val"))
        hi = args[2] if len(args) > 2 else kwargs.get("max", kwargs.get("max_val"))
    rdt = res.dtype
    c = self.ctx
    S = self.terms_of(x, rdt)
    # aten.clamp computes min(max(x, lo), hi); NaN propagates
    if lo is not None:
        L = self.terms_of(lo, rdt)
        S = umap(lambda a, b: c.bin("max", rdt, a, b), S, L)
    if hi is not None:
        H = self.terms_of(hi, rdt)
        S = umap(lambda a, b: c.bin("min", rdt, a, b), S, H)
    _store(self, func, res, args, kwargs, S)


def _mk_cmp(op):
    def h(self, func, res, args, kwargs, pre):
        a, b = args[0], args[1]
        c = self.ctx
        cdt = torch.result_type(a, b)
        A, B = self.terms_of(a, cdt), self.terms_of(b, cdt)
        S = umap(lambda x, y: c.cmp(op, x, y), A, B)
        out = res
        if out.dtype != BOOL:
            S = umap(lambda x: c.cast(x, out.dtype), S)
        _store(self, func, res, args, kwargs, S)

    return h


for _n in ("eq", "ne", "lt", "le", "gt", "ge"):
    HANDLERS[getattr(aten, _n)] = _mk_cmp(_n)


@handler(aten.isnan)
def _isnan(self, func, res, args, kwargs, pre):
    c = self.ctx
    self.write(res, umap(lambda x: c.isnan(x) if x.dt in FLOATS else c.const(False, BOOL), self.read(args[0])), fresh=True)


@handler(aten.isinf)
def _isinf(self, func, res, args, kwargs, pre):
    c = self.ctx
    self.write(res, umap(lambda x: c.isinf(x) if x.dt in FLOATS else c.const(False, BOOL), self.read(args[0])), fresh=True)


@handler(aten.isfinite)
def _isfinite(self, func, res, args, kwargs, pre):
    c = self.ctx
    self.write(res, umap(lambda x: c.isfinite(x) if x.dt in FLOATS else c.const(True, BOOL), self.read(args[0])), fresh=True)


@handler(aten.where)
def _where(self, func, res, args, kwargs, pre):
    if len(args) < 3:
        raise Unsupported("where(cond)")
    c = self.ctx
    rdt = res.dtype
    C = self.terms_of(args[0], BOOL)
    A, B = self.terms_of(args[1], rdt), self.terms_of(args[2], rdt)
    _store(self, func, res, args, kwargs, umap(lambda k, x, y: c.ite(k, x, y), C, A, B))


@handler(aten._to_copy, aten.to, aten.type_as)
def _to_copy(self, func, res, args, kwargs, pre):
    a = args[0]
    c = self.ctx
    if res.device.type != "cpu":
        raise Unsupported("move to non-cpu device")
    rdt = res.dtype
    A = self.read(a)
    S = A if a.dtype == rdt else umap(lambda x: c.cast(x, rdt), A)
    self.write(res, S, fresh=True)


@handler(aten.copy_)
def _copy_(self, func, res, args, kwargs, pre):
    dst, src = args[0], args[1]
    c = self.ctx
    S = self.terms_of(src, dst.dtype)
    self.write(dst, S)


@handler(aten.fill_, aten.fill, aten.full_like, aten.masked_fill, aten.masked_fill_)
def _fill(self, func, res, args, kwargs, pre):
    p = func.overloadpacket
    c = self.ctx
    if p in (aten.masked_fill, aten.masked_fill_):
        rdt = res.dtype
        X = self.terms_of(args[0], rdt)
        M = self.terms_of(args[1], BOOL)
        V = self.terms_of(args[2], rdt)
        _store(self, func, res, args, kwargs, umap(lambda m, x, v: c.ite(m, v, x), M, X, V))
        return
    v = args[1]
    out = res if p is not aten.fill_ else args[0]
    V = self.terms_of(v, out.dtype)
    if func._schema.is_mutable:
        self.write(args[0], V)
    else:
        self.write(res, np.broadcast_to(V, tuple(res.shape)), fresh=True)


@handler(aten.zero_)
def _zero_(self, func, res, args, kwargs, pre):
    self.write(args[0], self.terms_of(0, args[0].dtype))


@handler(aten.zeros_like, aten.ones_like, aten.empty_like, aten.new_zeros, aten.new_ones, aten.new_empty, aten.new_empty_strided, aten.new_full, aten.rand_like, aten.randn_like)
def _like(self, func, res, args, kwargs, pre):
    return  # fresh concrete tensor, no symbolic content


def _reduce_dims(a, dim):
    if dim is None or (isinstance(dim, (list, tuple)) and len(dim) == 0):
        return tuple(range(a.ndim))
    if isinstance(dim, int):
        dim = [dim]
    return tuple(sorted(d % a.ndim for d in dim)) if a.ndim else ()


def _reduce(self, A, dims, keepdim, f):
    """fold f over dims of the object array A (left to right in memory order of the reduced dims)"""
    nd = A.ndim
    if nd == 0:
        return A
    keep = [d for d in range(nd) if d not in dims]
    moved = np.transpose(A, list(dims) + keep)
    lead = int(np.prod([A.shape[d] for d in dims])) if dims else 1
    flat = moved.reshape((lead,) + tuple(A.shape[d] for d in keep))
    out = np.empty(flat.shape[1:], dtype=object)
    o = out.reshape(-1)
    fl = flat.reshape(lead, -1)
    for j in range(o.size):
        o[j] = f([fl[i, j] for i in range(lead)])
    if keepdim:
        shape = [1 if d in dims else A.shape[d] for d in range(nd)]
        out = out.reshape(shape)
    return out


def _fold(c, op, dt):
    def f(xs):
        acc = xs[0]
        for x in xs[1:]:
            acc = c.bin(op, dt, acc, x)
        return acc

    return f


@handler(aten.amax, aten.amin)
def _amax(self, func, res, args, kwargs, pre):
    a = args[0]
    dim = args[1] if len(args) > 1 else kwargs.get("dim", [])
    keepdim = args[2] if len(args) > 2 else kwargs.get("keepdim", False)
    op = "max" if func.overloadpacket is aten.amax else "min"
    S = _reduce(self, self.read(a), _reduce_dims(a, dim), keepdim, _fold(self.ctx, op, a.dtype))
    self.write(res, S.reshape(tuple(res.shape)), fresh=True)


@handler(aten.aminmax)
def _aminmax(self, func, res, args, kwargs, pre):
    a = args[0]
    dim = kwargs.get("dim", None)
    keepdim = kwargs.get("keepdim", False)
    dims = tuple(range(a.ndim)) if dim is None else _reduce_dims(a, dim)
    for out, op in zip(res, ("min", "max")):
        S = _reduce(self, self.read(a), dims, keepdim, _fold(self.ctx, op, a.dtype))
        self.write(out, S.reshape(tuple(out.shape)), fresh=True)


@handler(aten.max, aten.min)
def _max(self, func, res, args, kwargs, pre):
    a = args[0]
    op = "max" if func.overloadpacket is aten.max else "min"
    if len(args) == 1 and not kwargs:
        S = _reduce(self, self.read(a), tuple(range(a.ndim)), False, _fold(self.ctx, op, a.dtype))
        self.write(res, S.reshape(tuple(res.shape)), fresh=True)
        return
    if len(args) > 1 and isinstance(args[1], torch.Tensor):
        _store(self, func, res, args, kwargs, _binary(self, op, res, args[0], args[1]))
        return
    # max.dim returns (values, indices): values modelled, indices opaque
    dim = args[1] if len(args) > 1 else kwargs.get("dim")
    keepdim = args[2] if len(args) > 2 else kwargs.get("keepdim", False)
    vals, idx = res
    S = _reduce(self, self.read(a), _reduce_dims(a, dim), keepdim, _fold(self.ctx, op, a.dtype))
    self.write(vals, S.reshape(tuple(vals.shape)), fresh=True)
    c = self.ctx
    A = self.read(a).reshape(-1).tolist()
    iv = _tolist(idx)
    self.write(idx, obj_array(tuple(idx.shape), [c.uf(str(func) + "#idx", idx.dtype, (i,), A, v) for i, v in enumerate(iv)]), fresh=True)


@handler(aten.all, aten.any)
def _all(self, func, res, args, kwargs, pre):
    a = args[0]
    c = self.ctx
    dim = args[1] if len(args) > 1 else kwargs.get("dim", None)
    keepdim = args[2] if len(args) > 2 else kwargs.get("keepdim", False)
    op = "and" if func.overloadpacket is aten.all else "or"
    A = umap(lambda x: c.cast(x, BOOL), self.read(a))
    S = _reduce(self, A, _reduce_dims(a, dim), keepdim, _fold(c, op, BOOL))
    if res.dtype != BOOL:
        S = umap(lambda x: c.cast(x, res.dtype), S)
    self.write(res, S.reshape(tuple(res.shape)), fresh=True)


@handler(aten.sum, aten.mean)
def _sum(self, func, res, args, kwargs, pre):
    a = args[0]
    c = self.ctx
    dim = args[1] if len(args) > 1 else kwargs.get("dim", None)
    keepdim = args[2] if len(args) > 2 else kwargs.get("keepdim", False)
    rdt = res.dtype
    A = self.terms_of(a, rdt) if rdt not in FLOATS or a.dtype in FLOATS else self.terms_of(a, rdt)
    dims = _reduce_dims(a, dim)
    real = _tolist(res)
    is_mean = func.overloadpacket is aten.mean
    counter = [0]
    n_red = int(np.prod([a.shape[d] for d in dims])) if dims else 1

    def f(xs):
        # the result order of _reduce is C order of the kept dims == order of res elements
        i = counter[0]
        counter[0] += 1
        if len(xs) == 1 and not is_mean:
            return xs[0]
        if rdt in INTS and not is_mean:
            acc = xs[0]
            for x in xs[1:]:
                acc = c.bin("add", rdt, acc, x)
            return acc
        self.float_sum_nodes += 1
        return c.nary("mean" if is_mean else "sum", rdt, sorted(xs, key=lambda t: t.uid), real[i])

    S = _reduce(self, A, dims, keepdim, f)
    self.write(res, S.reshape(tuple(res.shape)), fresh=True)


def _as_small_int(t):
    """the int8/uint8/bool term a float term was (exactly) cast from, if any"""
    if t.op == "cast" and t.args[0].dt in (torch.int8, torch.uint8, torch.bool):
        return t.args[0]
    if t.op == "cast" and tm.is_float(t.args[0].dt) and tm._exact_upcast(t.args[0].dt, t.dt):
        return _as_small_int(t.args[0])
    return None


def _dot_terms(self, c, rdt, xs, ys, real, extra=None):
    """sum_k xs[k]*ys[k] (+ extra) with unspecified accumulation order.  Integer contractions are exact (order is
    irrelevant): they are kept as one int `dot` node.  A float32/float64 contraction whose operands are all exact casts of
    8-bit integers is an exact integer too while K*2^14 < 2^p, whatever the summation order: it is rewritten to the cast of
    the integer `dot`, which makes the integer-GEMM and float-GEMM routes comparable term for term."""
    if rdt in INTS:
        args = [t for p in zip(xs, ys) for t in p]
        node = c.nary("dot", rdt, args, tm.wrap_int(sum(x.cv * y.cv for x, y in zip(xs, ys)), rdt))
        return node if extra is None else c.bin("add", rdt, node, extra)
    if rdt in (tm.F32, tm.F64) and extra is None and len(xs) * 2**14 < 2 ** tm.FMT[rdt]["p"]:
        ix, iy = [_as_small_int(x) for x in xs], [_as_small_int(y) for y in ys]
        if all(v is not None for v in ix + iy):
            i32 = torch.int32
            args = [t for p in zip((c.cast(v, i32) for v in ix), (c.cast(v, i32) for v in iy)) for t in p]
            node = c.nary("dot", i32, args, sum(x.cv * y.cv for x, y in zip(ix, iy)))
            return c.cast(node, rdt)
    self.float_sum_nodes += 1
    args = [t for p in zip(xs, ys) for t in p]
    if extra is not None:
        return c.nary("dotb", rdt, [extra] + args, real)
    return c.nary("dot", rdt, args, real)


@handler(aten.mm, aten._int_mm)
def _mm(self, func, res, args, kwargs, pre):
    a, b = args[0], args[1]
    c = self.ctx
    rdt = res.dtype
    A, B = self.terms_of(a, rdt), self.terms_of(b, rdt)
    n, k = A.shape
    m = B.shape[1]
    real = _tolist(res)
    out = []
    for i in range(n):
        for j in range(m):
            out.append(_dot_terms(self, c, rdt, list(A[i, :]), list(B[:, j]), real[i * m + j]))
    if k == 0:
        return
    self.write(res, obj_array((n, m), out), fresh=True)


@handler(aten.bmm)
def _bmm(self, func, res, args, kwargs, pre):
    a, b = args[0], args[1]
    c = self.ctx
    rdt = res.dtype
    A, B = self.terms_of(a, rdt), self.terms_of(b, rdt)
    bs, n, k = A.shape
    m = B.shape[2]
    real = _tolist(res)
    out = []
    for q in range(bs):
        for i in range(n):
            for j in range(m):
                out.append(_dot_terms(self, c, rdt, list(A[q, i, :]), list(B[q, :, j]), real[(q * n + i) * m + j]))
    self.write(res, obj_array((bs, n, m), out), fresh=True)


@handler(aten.addmm)
def _addmm(self, func, res, args, kwargs, pre):
    bias, a, b = args[0], args[1], args[2]
    if kwargs.get("beta", 1) != 1 or kwargs.get("alpha", 1) != 1:
        raise Unsupported("addmm alpha/beta")
    c = self.ctx
    rdt = res.dtype
    A, B = self.terms_of(a, rdt), self.terms_of(b, rdt)
    n, k = A.shape
    m = B.shape[1]
    Bi = np.broadcast_to(self.terms_of(bias, rdt), (n, m))
    real = _tolist(res)
    out = []
    for i in range(n):
        for j in range(m):
            out.append(_dot_terms(self, c, rdt, list(A[i, :]), list(B[:, j]), real[i * m + j], extra=Bi[i, j]))
    self.write(res, obj_array((n, m), out), fresh=True)


@handler(aten.mv, aten.dot)
def _mv(self, func, res, args, kwargs, pre):
    a, b = args[0], args[1]
    c = self.ctx
    rdt = res.dtype
    A, B = self.terms_of(a, rdt), self.terms_of(b, rdt)
    real = _tolist(res)
    if A.ndim == 1:
        self.write(res, obj_array((), [_dot_terms(self, c, rdt, list(A), list(B), real[0])]), fresh=True)
    else:
        self.write(res, obj_array((A.shape[0],), [_dot_terms(self, c, rdt, list(A[i, :]), list(B), real[i]) for i in range(A.shape[0])]), fresh=True)


@handler(aten._weight_int8pack_mm)
def _w8mm(self, func, res, args, kwargs, pre):
    # out[i,j] = (sum_k A[i,k] * float(W[j,k])) * scales[j]   computed in the activation dtype family
    a, w, s = args[0], args[1], args[2]
    c = self.ctx
    rdt = res.dtype
    A, W, S = self.read(a), self.read(w), self.read(s)
    n, k = A.shape
    m = W.shape[0]
    real = _tolist(res)
    out = []
    flat = A.reshape(-1).tolist() + W.reshape(-1).tolist() + S.reshape(-1).tolist()
    for i in range(n):
        for j in range(m):
            xs = list(A[i, :])
            ys = [c.cast(x, rdt) for x in W[j, :]]
            self.float_sum_nodes += 1
            pairs = sorted(((x, y) if x.uid <= y.uid else (y, x) for x, y in zip(xs, ys)), key=lambda p: (p[0].uid, p[1].uid))
            out.append(c.nary("dot_scaled", rdt, [c.cast(S[j], rdt) if S[j].dt != rdt else S[j]] + [t for p in pairs for t in p], real[i * m + j]))
    self.write(res, obj_array((n, m), out), fresh=True)


@handler(aten.arange, aten.zeros, aten.ones, aten.empty, aten.full, aten.scalar_tensor, aten.empty_strided, aten.eye)
def _factory(self, func, res, args, kwargs, pre):
    # factories only reach here if a symbolic tensor was passed (e.g. full with tensor fill): treat conservatively
    for a in args:
        if isinstance(a, torch.Tensor) and self.is_sym(a):
            raise Unsupported(str(func))


@handler(aten.uniform_, aten.normal_, aten.random_, aten.bernoulli_)
def _rand(self, func, res, args, kwargs, pre):
    # nondeterministic stub: fresh unconstrained values (seeded by what the kernel drew)
    t = args[0]
    vals = _tolist(t)
    c = self.ctx
    n = len(c.vars)
    self.write(t, obj_array(tuple(t.shape), [c.var(f"rand{n}_{i}", t.dtype, v) for i, v in enumerate(vals)]))


@handler(aten.nonzero, aten.nonzero_static)
def _nonzero(self, func, res, args, kwargs, pre):
    """data-dependent shape: which elements are non-zero becomes a set of branch conditions; the result stays concrete"""
    c = self.ctx
    a = args[0]
    for t in self.read(a).reshape(-1):
        if t.op == "const":
            continue
        cond = t if t.dt == BOOL else c.cast(t, BOOL)
        self.path.append((cond, bool(cond.cv), "branch"))


@handler(aten.index_put_, aten.index_put, aten._unsafe_index_put)
def _index_put(self, func, res, args, kwargs, pre):
    dst, indices, values = args[0], args[1], args[2]
    accumulate = args[3] if len(args) > 3 else kwargs.get("accumulate", False)
    if not accumulate and len(indices) == 1 and isinstance(indices[0], torch.Tensor) and indices[0].dtype == BOOL and tuple(indices[0].shape) == tuple(dst.shape) and values.numel() == 1:
        # boolean-mask assignment t[mask] = v with a (possibly symbolic) mask: elementwise ite(mask, v, old)
        c = self.ctx
        M = self.read(indices[0]).reshape(-1)
        V = self.terms_of(values, dst.dtype).reshape(-1)[0]
        cur = pre if func._schema.is_mutable else self.read(dst).reshape(-1)
        out = [c.ite(mk_, V, old) for mk_, old in zip(M, cur)]
        target = dst if func._schema.is_mutable else res
        self.write(target, obj_array(tuple(target.shape), out), fresh=not func._schema.is_mutable)
        return
    if accumulate or any(isinstance(i, torch.Tensor) and self.has_symbols(i) for i in indices):
        raise Unsupported("index_put accumulate / symbolic index")
    ids = torch.arange(1, dst.numel() + 1, dtype=torch.int64).reshape(dst.shape)
    marks = torch.zeros(dst.shape, dtype=torch.int64)
    vids = torch.arange(1, values.numel() + 1, dtype=torch.int64).reshape(values.shape)
    marks = aten.index_put(marks, indices, vids)
    D = self.read(res if not func._schema.is_mutable else dst).reshape(-1) if False else None
    base = self.read(dst).reshape(-1) if func._schema.is_mutable is False else None
    V = self.terms_of(values, dst.dtype).reshape(-1)
    mk = marks.reshape(-1).tolist()
    target = dst if func._schema.is_mutable else res
    if func._schema.is_mutable:
        cur = pre
    else:
        cur = self.read(dst).reshape(-1)
    out = [V[m - 1] if m else cur[i] for i, m in enumerate(mk)]
    self.write(target, obj_array(tuple(target.shape), out), fresh=not func._schema.is_mutable)


def _pre_index_put(self, func, args, kwargs):
    return self.read(args[0]).reshape(-1).copy()


PRE_HOOKS[aten.index_put_.default] = _pre_index_put
