"""Symbolic Python integers for configuration arguments (axis, group_size): a concolic proxy over z3 Ints.
Arithmetic and comparisons build terms; bool() of a comparison records a branch; entering a C API (__index__/__int__)
records a concretisation.  explore() enumerates all paths by flipping branch conditions with the solver and closes the
coverage with a final query: domain AND NOT (OR of explored path conditions) must be unsat."""
import z3


class Tracer:
    def __init__(self):
        self.path = []  # (z3 Bool, outcome)

    def branch(self, cond, outcome):
        self.path.append((cond, bool(outcome)))


class SymBool:
    def __init__(self, tr, term, val):
        self.tr, self.term, self.val = tr, term, bool(val)

    def __bool__(self):
        self.tr.branch(self.term, self.val)
        return self.val

    def __and__(self, o):
        return SymBool(self.tr, z3.And(self.term, _t(o)), self.val and _v(o))

    def __or__(self, o):
        return SymBool(self.tr, z3.Or(self.term, _t(o)), self.val or _v(o))

    def __invert__(self):
        return SymBool(self.tr, z3.Not(self.term), not self.val)

    __rand__, __ror__ = __and__, __or__


def _t(o):
    if isinstance(o, (SymInt, SymBool)):
        return o.term
    if isinstance(o, bool):
        return z3.BoolVal(o)
    return z3.IntVal(int(o))


def _v(o):
    return o.val if isinstance(o, (SymInt, SymBool)) else o


def _pymod(a, b):
    # z3's mod is Euclidean (result >= 0); Python's takes the sign of the divisor
    m = a % b
    return z3.If(z3.And(b < 0, m != 0), m + b, m)


def _pydiv(a, b):
    # Python floor division from z3's Euclidean division
    return z3.If(b > 0, a / b, z3.If(a % b == 0, a / b, a / b - 1)) if False else (a - _pymod(a, b)) / b


class SymInt:
    def __init__(self, tr, term, val):
        self.tr, self.term, self.val = tr, term, int(val)

    def _new(self, term, val):
        return SymInt(self.tr, term, val)

    def _cmp(self, o, f, g):
        if not isinstance(o, (int, SymInt)) or isinstance(o, bool):
            return NotImplemented
        return SymBool(self.tr, f(self.term, _t(o)), g(self.val, _v(o)))

    def __eq__(self, o):
        if o is None:
            return False
        return self._cmp(o, lambda a, b: a == b, lambda a, b: a == b)

    def __ne__(self, o):
        if o is None:
            return True
        return self._cmp(o, lambda a, b: a != b, lambda a, b: a != b)

    def __lt__(self, o):
        return self._cmp(o, lambda a, b: a < b, lambda a, b: a < b)

    def __le__(self, o):
        return self._cmp(o, lambda a, b: a <= b, lambda a, b: a <= b)

    def __gt__(self, o):
        return self._cmp(o, lambda a, b: a > b, lambda a, b: a > b)

    def __ge__(self, o):
        return self._cmp(o, lambda a, b: a >= b, lambda a, b: a >= b)

    def __hash__(self):
        return hash(self.__index__())

    def __index__(self):
        self.tr.branch(self.term == self.val, True)
        return self.val

    __int__ = __index__

    def __bool__(self):
        self.tr.branch(self.term != 0, self.val != 0)
        return self.val != 0

    def __add__(self, o):
        return self._new(self.term + _t(o), self.val + _v(o))

    __radd__ = __add__

    def __sub__(self, o):
        return self._new(self.term - _t(o), self.val - _v(o))

    def __rsub__(self, o):
        return self._new(_t(o) - self.term, _v(o) - self.val)

    def __mul__(self, o):
        return self._new(self.term * _t(o), self.val * _v(o))

    __rmul__ = __mul__

    def __neg__(self):
        return self._new(-self.term, -self.val)

    def __mod__(self, o):
        if _v(o) == 0:
            self.tr.branch(_t(o) == 0, True)
            raise ZeroDivisionError("integer modulo by zero")
        self.tr.branch(_t(o) != 0, True)
        return self._new(_pymod(self.term, _t(o)), self.val % _v(o))

    def __rmod__(self, o):
        if self.val == 0:
            self.tr.branch(self.term == 0, True)
            raise ZeroDivisionError("integer modulo by zero")
        self.tr.branch(self.term != 0, True)
        return self._new(_pymod(_t(o), self.term), _v(o) % self.val)

    def __floordiv__(self, o):
        if _v(o) == 0:
            self.tr.branch(_t(o) == 0, True)
            raise ZeroDivisionError
        self.tr.branch(_t(o) != 0, True)
        return self._new(_pydiv(self.term, _t(o)), self.val // _v(o))

    def __rfloordiv__(self, o):
        if self.val == 0:
            self.tr.branch(self.term == 0, True)
            raise ZeroDivisionError
        self.tr.branch(self.term != 0, True)
        return self._new(_pydiv(_t(o), self.term), _v(o) // self.val)

    def __divmod__(self, o):
        return self.__floordiv__(o), self.__mod__(o)

    def __rdivmod__(self, o):
        return self.__rfloordiv__(o), self.__rmod__(o)

    def __pos__(self):
        return self

    def __abs__(self):
        neg = self.val < 0
        self.tr.branch(self.term < 0, neg)
        return self.__neg__() if neg else self

    def __truediv__(self, o):
        # float result: concretised (recorded as a branch on the operands' values)
        return int(self) / (int(o) if isinstance(o, SymInt) else o)

    def __rtruediv__(self, o):
        return (int(o) if isinstance(o, SymInt) else o) / int(self)

    def __pow__(self, o):
        e = int(o)
        if e < 0:
            return int(self) ** e
        r = 1
        for _ in range(e):
            r = self * r
        return r

    def __rpow__(self, o):
        return o ** int(self)

    def __lshift__(self, o):
        return self * (2 ** int(o))

    def __rlshift__(self, o):
        return o * (2 ** int(self))

    def __rshift__(self, o):
        return self // (2 ** int(o))

    def __repr__(self):
        return f"SymInt({self.val})"

    def __format__(self, spec):
        return format(self.val, spec)


def explore(run, names, domain, seeds, max_paths=200, timeout_ms=10000):
    """run(tracer, {name: SymInt}) -> outcome (anything).  domain(vars: {name: z3 Int}) -> list of z3 constraints.
    Returns (list of (values, outcome, path), closed: bool)."""
    zv = {n: z3.Int(n) for n in names}
    dom = domain(zv)
    results = []
    seen = set()
    queue = [dict(s) for s in seeds]
    covered = []
    while len(results) < max_paths:
        if not queue:
            # closing query: anything in the domain not covered by an explored path becomes the next seed
            s = z3.Solver()
            s.set("timeout", 60000)
            s.add(*dom)
            if covered:
                s.add(z3.Not(z3.Or(*covered)))
            if s.check() != z3.sat:
                break
            mdl = s.model()
            queue.append({n: mdl.eval(zv[n], model_completion=True).as_long() for n in names})
        vals = queue.pop(0)
        tr = Tracer()
        syms = {n: SymInt(tr, zv[n], vals[n]) for n in names}
        outcome = run(tr, syms)
        sig = tuple((str(c), o) for c, o in tr.path)
        if sig in seen:
            continue
        seen.add(sig)
        results.append((vals, outcome, list(tr.path)))
        pc = [c if o else z3.Not(c) for c, o in tr.path]
        covered.append(z3.And(*pc) if pc else z3.BoolVal(True))
        for i in range(len(tr.path)):
            s = z3.Solver()
            s.set("timeout", timeout_ms)
            s.add(*dom)
            s.add(*pc[:i])
            s.add(z3.Not(pc[i]))
            if s.check() == z3.sat:
                mdl = s.model()
                queue.append({n: mdl.eval(zv[n], model_completion=True).as_long() for n in names})
    s = z3.Solver()
    s.set("timeout", 60000)
    s.add(*dom)
    s.add(z3.Not(z3.Or(*covered)) if covered else z3.BoolVal(True))
    closed = s.check()
    rest = None
    if closed == z3.sat:
        mdl = s.model()
        rest = {n: mdl.eval(zv[n], model_completion=True).as_long() for n in names}
    return results, str(closed), rest
