"""In-memory import of quanto's AWQ modules with their `assert <x>.device.type == "cuda"` statements removed, so that the
device-independent index arithmetic can run on CPU tensors.  Only those assert statements are deleted (each is reported);
everything else in the files runs as written.  Must be installed before optimum.quanto is imported."""
import ast
import importlib.abc
import importlib.util
import os
import sys

REPO = os.environ.get("QUANTO_REPO", "/repo")
TARGETS = {
    "optimum.quanto.tensor.qbits.awq.packed": "optimum/quanto/tensor/qbits/awq/packed.py",
    "optimum.quanto.tensor.qbits.awq.qbits": "optimum/quanto/tensor/qbits/awq/qbits.py",
}
REMOVED = []


class _Strip(ast.NodeTransformer):
    def __init__(self, fname):
        self.fname = fname

    def visit_Assert(self, node):
        src = ast.unparse(node.test)
        if src.endswith(".device.type == 'cuda'"):
            REMOVED.append(f"{self.fname}:{node.lineno}: assert {src}")
            return ast.copy_location(ast.Pass(), node)
        return node


class _Loader(importlib.abc.Loader):
    def __init__(self, path):
        self.path = path

    def create_module(self, spec):
        return None

    def exec_module(self, module):
        src = open(self.path).read()
        tree = _Strip(os.path.relpath(self.path, REPO)).visit(ast.parse(src))
        ast.fix_missing_locations(tree)
        module.__file__ = self.path
        exec(compile(tree, self.path, "exec"), module.__dict__)


class _Finder(importlib.abc.MetaPathFinder):
    def find_spec(self, name, path, target=None):
        if name in TARGETS:
            p = os.path.join(REPO, TARGETS[name])
            return importlib.util.spec_from_loader(name, _Loader(p), origin=p)
        return None


def install():
    if any(isinstance(f, _Finder) for f in sys.meta_path):
        return
    if any(n in sys.modules for n in TARGETS):
        raise RuntimeError("optimum.quanto was imported before the AWQ loader was installed")
    sys.meta_path.insert(0, _Finder())
