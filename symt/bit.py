"""BIT domain: exact interpretation of the term DAG in z3's FloatingPoint / BitVec / Bool theories.

float16 -> FP(5,11), bfloat16 -> FP(8,8), float32 -> FP(8,24), float64 -> FP(11,53); the two float8 types are
carried as FP(8,24) *values lying on their grid* (e4m3fn is not an IEEE format: no inf, max 448, saturating cast).
Integers are bit-vectors of their width; bool is Bool.  `sum`/`dot` nodes (accumulation order not specified
by ATen) are folded left to right in the node dtype - used only where the claim does not depend on the order
(K <= 2, finiteness) and always replayed.
"""
import math

import torch
import z3

from . import terms as tm
from .terms import BOOL, FLOATS, INTS, T

RNE = z3.RNE()
RTZ = z3.RTZ()

SORTS = {
    tm.F16: z3.FPSort(5, 11),
    tm.BF16: z3.FPSort(8, 8),
    tm.F32: z3.FPSort(8, 24),
    tm.F64: z3.FPSort(11, 53),
    tm.E4M3: z3.FPSort(8, 24),
    tm.E5M2: z3.FPSort(8, 24),
}


def sort_of(dt):
    if dt in SORTS:
        return SORTS[dt]
    if dt == BOOL:
        return z3.BoolSort()
    return z3.BitVecSort(INTS[dt][0])


def fpval(v, dt):
    s = SORTS[dt]
    if v != v:
        return z3.fpNaN(s)
    if v == tm.INF:
        return z3.fpPlusInfinity(s)
    if v == -tm.INF:
        return z3.fpMinusInfinity(s)
    if v == 0.0:
        return z3.fpMinusZero(s) if math.copysign(1.0, v) < 0 else z3.fpPlusZero(s)
    return z3.FPVal(v, s)


def const_of(v, dt):
    if dt in FLOATS:
        return fpval(float(v), dt)
    if dt == BOOL:
        return z3.BoolVal(bool(v))
    return z3.BitVecVal(int(v), INTS[dt][0])


def to_f8(x, src_sort, dt):
    """value of x (FP of src_sort) after conversion to float8 dt, as an FP(8,24) value"""
    f32 = SORTS[tm.F32]
    x32 = x if src_sort == f32 else z3.fpToFP(RNE, x, f32)
    if src_sort.ebits() > 8 or src_sort.sbits() > 24:
        # float64 -> float8 goes through float32 in c10 (static_cast<float>)
        pass
    if dt == tm.E5M2:
        # IEEE-like binary8 (5,3): round, keep inf/nan
        return z3.fpToFP(RNE, z3.fpToFP(RNE, x32, z3.FPSort(5, 3)), f32)
    # e4m3fn: precision 4, emin -6, max 448, saturating, NaN preserved
    # |x| >= 2^-6: same as rounding to a format with p=4 and a wider exponent range: FP(5,4) covers 2^-14..2^15
    wide = z3.fpToFP(RNE, z3.fpToFP(RNE, x32, z3.FPSort(6, 4)), f32)
    # |x| < 2^-6: fixed quantum 2^-9
    q = z3.FPVal(512.0, f32)
    sub = z3.fpDiv(RNE, z3.fpRoundToIntegral(RNE, z3.fpMul(RNE, x32, q)), q)
    small = z3.fpLT(z3.fpAbs(x32), z3.FPVal(2.0 ** -6, f32))
    r = z3.If(small, sub, wide)
    mx = z3.FPVal(448.0, f32)
    r = z3.If(z3.fpGT(r, mx), mx, z3.If(z3.fpLT(r, z3.fpNeg(mx)), z3.fpNeg(mx), r))
    return z3.If(z3.fpIsNaN(x32), z3.fpNaN(f32), r)


class Bit:
    def __init__(self, ctx):
        self.ctx = ctx
        self.memo = {}
        self.vars = {}
        self.ufs = {}
        self.side = []  # side constraints (e.g. float8 variables lie on their grid)

    def var(self, t):
        name = t.args[0]
        if t.dt in FLOATS:
            if t.dt in (tm.E4M3, tm.E5M2):
                # a float8 variable: an arbitrary byte decoded = any FP32 value that is a fixed point of the cast
                v = z3.FP(name, SORTS[tm.F32])
                self.side.append(z3.Or(z3.fpIsNaN(v), to_f8(v, SORTS[tm.F32], t.dt) == v))
                if t.dt == tm.E4M3:
                    self.side.append(z3.Not(z3.fpIsInf(v)))
            else:
                v = z3.FP(name, SORTS[t.dt])
        elif t.dt == BOOL:
            v = z3.Bool(name)
        else:
            v = z3.BitVec(name, INTS[t.dt][0])
        self.vars[name] = v
        return v

    def tr(self, root):
        memo = self.memo
        if root.uid in memo:
            return memo[root.uid]
        for t in tm.topo([root]):
            if t.uid not in memo:
                memo[t.uid] = self._node(t)
        return memo[root.uid]

    def _node(self, t):
        m = self.memo
        op, dt = t.op, t.dt
        if op == "var":
            return self.var(t)
        if op == "const":
            return const_of(t.cv, dt)
        a = [m[x.uid] if isinstance(x, T) else x for x in t.args]
        if op in ("add", "sub", "mul", "div", "min", "max", "and", "or", "xor", "shl", "shr", "floordiv", "truncdiv", "rem"):
            x, y = a
            if dt in FLOATS:
                if dt in (tm.E4M3, tm.E5M2) and op in ("add", "sub", "mul", "div"):
                    raise NotImplementedError("float8 arithmetic")
                if op == "add":
                    return z3.fpAdd(RNE, x, y)
                if op == "sub":
                    return z3.fpSub(RNE, x, y)
                if op == "mul":
                    return z3.fpMul(RNE, x, y)
                if op == "div":
                    return z3.fpDiv(RNE, x, y)
                nan = z3.fpNaN(SORTS[dt])
                anynan = z3.Or(z3.fpIsNaN(x), z3.fpIsNaN(y))
                if op == "max":
                    return z3.If(anynan, nan, z3.If(z3.fpGT(x, y), x, z3.If(z3.fpGT(y, x), y, z3.If(z3.fpIsPositive(x), x, y))))
                if op == "min":
                    return z3.If(anynan, nan, z3.If(z3.fpLT(x, y), x, z3.If(z3.fpLT(y, x), y, z3.If(z3.fpIsNegative(x), x, y))))
                raise NotImplementedError(op)
            if dt == BOOL:
                return {"and": z3.And, "or": z3.Or, "xor": z3.Xor, "mul": z3.And, "add": z3.Or, "max": z3.Or, "min": z3.And}[op](x, y)
            bits, signed = INTS[dt]
            if op == "add":
                return x + y
            if op == "sub":
                return x - y
            if op == "mul":
                return x * y
            if op == "and":
                return x & y
            if op == "or":
                return x | y
            if op == "xor":
                return x ^ y
            if op == "shl":
                return z3.If(z3.ULT(y, bits), x << y, z3.BitVecVal(0, bits))
            if op == "shr":
                if signed:
                    return z3.If(z3.ULT(y, bits), x >> y, z3.If(x < 0, z3.BitVecVal(-1, bits), z3.BitVecVal(0, bits)))
                return z3.If(z3.ULT(y, bits), z3.LShR(x, y), z3.BitVecVal(0, bits))
            if op == "min":
                return z3.If(x < y, x, y) if signed else z3.If(z3.ULT(x, y), x, y)
            if op == "max":
                return z3.If(x > y, x, y) if signed else z3.If(z3.UGT(x, y), x, y)
            raise NotImplementedError(op)
        if op in ("neg", "abs", "round", "floor", "ceil", "trunc", "not", "sign", "reciprocal", "sqrt"):
            (x,) = a
            if dt in FLOATS:
                if op == "neg":
                    return z3.fpNeg(x)
                if op == "abs":
                    return z3.fpAbs(x)
                if op == "round":
                    return z3.fpRoundToIntegral(RNE, x)
                if op == "floor":
                    return z3.fpRoundToIntegral(z3.RTN(), x)
                if op == "ceil":
                    return z3.fpRoundToIntegral(z3.RTP(), x)
                if op == "trunc":
                    return z3.fpRoundToIntegral(RTZ, x)
                if op == "reciprocal":
                    return z3.fpDiv(RNE, z3.FPVal(1.0, SORTS[dt]), x)
                if op == "sqrt":
                    return z3.fpSqrt(RNE, x)
                if op == "sign":
                    s = SORTS[dt]
                    return z3.If(z3.fpIsNaN(x), x, z3.If(z3.fpGT(x, z3.FPVal(0, s)), z3.FPVal(1, s), z3.If(z3.fpLT(x, z3.FPVal(0, s)), z3.FPVal(-1, s), z3.FPVal(0, s))))
            if dt == BOOL:
                return z3.Not(x)
            if op == "neg":
                return -x
            if op == "not":
                return ~x
            if op == "abs":
                return z3.If(x < 0, -x, x)
            raise NotImplementedError(op)
        if op == "cast":
            (x,) = a
            return self._cast(x, t.args[0].dt, dt)
        if op in ("eq", "ne", "lt", "le", "gt", "ge"):
            x, y = a
            sdt = t.args[0].dt
            if sdt in FLOATS:
                r = {"eq": z3.fpEQ, "lt": z3.fpLT, "le": z3.fpLEQ, "gt": z3.fpGT, "ge": z3.fpGEQ}.get(op)
                if op == "ne":
                    return z3.Not(z3.fpEQ(x, y))
                return r(x, y)
            if sdt == BOOL:
                return (x == y) if op == "eq" else z3.Xor(x, y) if op == "ne" else {"lt": z3.And(z3.Not(x), y), "le": z3.Or(z3.Not(x), y), "gt": z3.And(x, z3.Not(y)), "ge": z3.Or(x, z3.Not(y))}[op]
            signed = INTS[sdt][1]
            if op == "eq":
                return x == y
            if op == "ne":
                return x != y
            if signed:
                return {"lt": x < y, "le": x <= y, "gt": x > y, "ge": x >= y}[op]
            return {"lt": z3.ULT(x, y), "le": z3.ULE(x, y), "gt": z3.UGT(x, y), "ge": z3.UGE(x, y)}[op]
        if op == "ite":
            return z3.If(a[0], a[1], a[2])
        if op == "isnan":
            return z3.fpIsNaN(a[0])
        if op == "isinf":
            return z3.fpIsInf(a[0])
        if op == "isfinite":
            return z3.Not(z3.Or(z3.fpIsNaN(a[0]), z3.fpIsInf(a[0])))
        if op in ("sum", "mean"):
            acc = a[0]
            for x in a[1:]:
                acc = z3.fpAdd(RNE, acc, x) if dt in FLOATS else acc + x
            if op == "mean":
                acc = z3.fpDiv(RNE, acc, z3.FPVal(float(len(a)), SORTS[dt]))
            return acc
        if op in ("dot", "dotb"):
            extra = None
            if op == "dotb":
                extra, a = a[0], a[1:]
            acc = None
            for i in range(0, len(a), 2):
                p = z3.fpMul(RNE, a[i], a[i + 1]) if dt in FLOATS else a[i] * a[i + 1]
                acc = p if acc is None else (z3.fpAdd(RNE, acc, p) if dt in FLOATS else acc + p)
            if extra is not None:
                acc = z3.fpAdd(RNE, acc, extra) if dt in FLOATS else acc + extra
            return acc
        if op == "uf":
            name, statics = t.args[0], t.args[1]
            args = a[2:]
            key = (name, statics, tuple(x.sort() for x in args), dt)
            f = self.ufs.get(key)
            if f is None:
                f = z3.Function(f"uf{len(self.ufs)}", *[x.sort() for x in args], sort_of(dt))
                self.ufs[key] = f
            return f(*args) if args else z3.Const(f"ufc{len(self.ufs)}_{t.uid}", sort_of(dt))
        raise NotImplementedError(op)

    def _cast(self, x, src, dst):
        if src in FLOATS and dst in FLOATS:
            if dst in (tm.E4M3, tm.E5M2):
                return to_f8(x, SORTS[src], dst)
            if SORTS[src] == SORTS[dst]:
                return x
            return z3.fpToFP(RNE, x, SORTS[dst])
        if src == BOOL:
            if dst in FLOATS:
                return z3.If(x, const_of(1.0, dst), const_of(0.0, dst))
            return z3.If(x, z3.BitVecVal(1, INTS[dst][0]), z3.BitVecVal(0, INTS[dst][0]))
        if dst == BOOL:
            if src in FLOATS:
                return z3.Not(z3.fpIsZero(x))
            return x != 0
        if src in INTS and dst in FLOATS:
            signed = INTS[src][1]
            s = SORTS[dst]
            r = z3.fpSignedToFP(RNE, x, s) if signed else z3.fpUnsignedToFP(RNE, x, s)
            if dst in (tm.E4M3, tm.E5M2):
                return to_f8(r, s, dst)
            return r
        if src in FLOATS and dst in INTS:
            bits, signed = INTS[dst]
            wide = 64 if bits == 64 else 32
            # x86 cvtt: truncate toward zero; NaN / out of int32 range -> INT_MIN; then wrap to the target width
            s = SORTS[src]
            lim = float(2 ** (wide - 1))
            fmax = tm.FMT[src if src not in (tm.E4M3, tm.E5M2) else tm.F32]["fmax"]
            if lim <= fmax:
                inr = z3.And(z3.Not(z3.fpIsNaN(x)), z3.fpLT(x, z3.FPVal(lim, s)), z3.fpGEQ(x, z3.FPVal(-lim, s)))
            else:
                inr = z3.And(z3.Not(z3.fpIsNaN(x)), z3.Not(z3.fpIsInf(x)))
            w = z3.If(inr, z3.fpToSBV(RTZ, x, z3.BitVecSort(wide)), z3.BitVecVal(-(2 ** (wide - 1)), wide))
            return z3.Extract(bits - 1, 0, w) if bits < wide else w
        if src in INTS and dst in INTS:
            bs, ss = INTS[src]
            bd, sd = INTS[dst]
            if bd <= bs:
                return z3.Extract(bd - 1, 0, x) if bd < bs else x
            return z3.SignExt(bd - bs, x) if ss else z3.ZeroExt(bd - bs, x)
        raise NotImplementedError(f"cast {src}->{dst}")

    # ---- helpers for harnesses
    def finite(self, t):
        x = self.tr(t)
        return z3.Not(z3.Or(z3.fpIsNaN(x), z3.fpIsInf(x)))

    def seed_model(self):
        """substitution list var -> seed constant"""
        subs = []
        for name, v in self.vars.items():
            t = self.ctx.vars[name]
            subs.append((v, const_of(t.cv, t.dt if t.dt not in (tm.E4M3, tm.E5M2) else tm.F32)))
        return subs

    def eval_seed(self, t):
        """evaluate the z3 translation of t under the seed (validates the BIT back end against the evaluator)"""
        e = self.tr(t)
        return z3.simplify(z3.substitute(e, *self.seed_model()))


def z3_value(v, dt):
    """Python value of a z3 model value for dtype dt"""
    if dt in FLOATS:
        if z3.is_fp(v):
            if z3.is_fprm(v):
                raise ValueError
            s = str(v)
            if v.isNaN():
                return tm.NAN
            if v.isInf():
                return -tm.INF if v.isNegative() else tm.INF
            if v.isZero():
                return -0.0 if v.isNegative() else 0.0
            sig = v.significand_as_long()
            sb = v.sbits()
            ex = v.exponent_as_long(biased=False)
            # normal / subnormal handled by z3's own exponent convention
            sign = -1.0 if v.sign() else 1.0
            if v.isSubnormal():
                emin = 2 - 2 ** (v.ebits() - 1)
                return sign * math.ldexp(sig, emin - (sb - 1))
            return sign * math.ldexp((1 << (sb - 1)) + sig, ex - (sb - 1))
        raise ValueError(v)
    if dt == BOOL:
        return z3.is_true(v)
    bits, signed = INTS[dt]
    x = v.as_long()
    if signed and x >= 1 << (bits - 1):
        x -= 1 << bits
    return x
