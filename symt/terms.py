"""Hash-consed term DAG for tensor element values, with an exact concrete evaluator.

A term denotes the value of ONE tensor element (or a Python scalar that was extracted from one).
Every node carries `cv`, its concrete value under the seed of the current run, computed from its
children's `cv` by an evaluator that is independent of torch (pure Python / exact IEEE rounding),
so that each ATen transfer function can be validated bit-for-bit against what the real kernel
just produced.

The same DAG is later interpreted by three back ends: BIT (z3 FP/BV, exact), RERR (reals with
bounded rounding errors) and ALG (term identity / support).
"""
import math
import struct

import torch

INF = float("inf")
NAN = float("nan")

# float formats: precision p (incl. hidden bit), emin, emax (unbiased exponent of the largest binade)
F16, BF16, F32, F64 = torch.float16, torch.bfloat16, torch.float32, torch.float64
E4M3, E5M2 = torch.float8_e4m3fn, torch.float8_e5m2
FMT = {
    F16: dict(p=11, emin=-14, emax=15, eb=5, name="f16"),
    BF16: dict(p=8, emin=-126, emax=127, eb=8, name="bf16"),
    F32: dict(p=24, emin=-126, emax=127, eb=8, name="f32"),
    F64: dict(p=53, emin=-1022, emax=1023, eb=11, name="f64"),
    E5M2: dict(p=3, emin=-14, emax=15, eb=5, name="e5m2"),
    E4M3: dict(p=4, emin=-6, emax=8, eb=4, name="e4m3", fmax=448.0),
}
for _f in FMT.values():
    _f.setdefault("fmax", (2.0 - 2.0 ** (1 - _f["p"])) * 2.0 ** _f["emax"])
    _f["fmin_sub"] = 2.0 ** (_f["emin"] - _f["p"] + 1)
    _f["fmin_norm"] = 2.0 ** _f["emin"]
    _f["u"] = 2.0 ** (-_f["p"])
FLOATS = set(FMT)
INTS = {
    torch.int8: (8, True),
    torch.uint8: (8, False),
    torch.int16: (16, True),
    torch.uint16: (16, False),
    torch.int32: (32, True),
    torch.int64: (64, True),
}
BOOL = torch.bool


def is_float(dt):
    return dt in FLOATS


def is_int(dt):
    return dt in INTS


def dtname(dt):
    return str(dt).replace("torch.", "")


def fround_fmt(x, dt):
    """Round the real number held exactly in the Python float x to format dt (RNE), IEEE overflow
    to inf except e4m3fn, which saturates (torch >= 2.?: c10 Float8_e4m3fn conversion)."""
    if dt == F64 or x != x or x == 0.0:
        return x
    f = FMT[dt]
    if x in (INF, -INF):
        if dt == E4M3:
            return math.copysign(f["fmax"], x)
        return x
    m, e = math.frexp(x)
    q = max(e - 1, f["emin"]) - (f["p"] - 1)
    y = round(math.ldexp(x, -q))
    r = math.ldexp(float(y), q)
    if dt == E4M3:
        if abs(r) > f["fmax"]:
            return math.copysign(f["fmax"], x)
    elif abs(r) >= 2.0 ** (f["emax"] + 1):
        return math.copysign(INF, x)
    if r == 0.0:
        return math.copysign(0.0, x)
    return r


def wrap_int(v, dt):
    bits, signed = INTS[dt]
    v &= (1 << bits) - 1
    if signed and v >= 1 << (bits - 1):
        v -= 1 << bits
    return v


def float_to_int(x, dt, src=None):
    """Observed x86 / torch CPU semantics: convert with truncation to int32 (int64 for int64 targets),
    out of range / NaN -> INT_MIN, then wrap to the target width."""
    bits, signed = INTS[dt]
    wide = 64 if bits == 64 else 32
    if x != x or x in (INF, -INF):
        t = -(1 << (wide - 1))
    else:
        t = int(x)  # truncation
        if t >= (1 << (wide - 1)) or t < -(1 << (wide - 1)):
            t = -(1 << (wide - 1))
    return wrap_int(t, dt)


def float_to_int_inrange(x, dt):
    bits, signed = INTS[dt]
    if x != x or x in (INF, -INF):
        return False
    t = int(x)
    lo, hi = (-(1 << (bits - 1)), (1 << (bits - 1)) - 1) if signed else (0, (1 << bits) - 1)
    return lo <= t <= hi


class T:
    __slots__ = ("op", "dt", "args", "cv", "uid", "__weakref__")

    def __repr__(self):
        return f"T{self.uid}<{self.op}:{dtname(self.dt)}={self.cv}>"

    def pretty(self, depth=4):
        if self.op == "var":
            return self.args[0]
        if self.op == "const":
            return repr(self.cv)
        if depth == 0:
            return "..."
        return (
            f"{self.op}[{dtname(self.dt)}]("
            + ", ".join(a.pretty(depth - 1) if isinstance(a, T) else repr(a) for a in self.args)
            + ")"
        )


def same_value(a, b):
    """bit-level equality of two concrete values (NaN == NaN, -0.0 != 0.0)"""
    if isinstance(a, float) or isinstance(b, float):
        a = float(a)
        b = float(b)
        if a != a and b != b:
            return True
        return a == b and math.copysign(1.0, a) == math.copysign(1.0, b)
    return a == b


class Ctx:
    """One symbolic run: the hash-cons table, the variables and their seed values."""

    def __init__(self):
        self.table = {}
        self.vars = {}  # name -> T
        self.n = 0
        self.cast_obligations = []  # (term_of_float_arg, dst_dtype) for every float->int cast executed
        self.uf_names = set()

    # ---- construction
    def _mk(self, op, dt, args, cv):
        key = (op, dt, args)
        t = self.table.get(key)
        if t is None:
            t = T()
            t.op, t.dt, t.args, t.cv = op, dt, args, cv
            t.uid = self.n
            self.n += 1
            self.table[key] = t
        return t

    def var(self, name, dt, seed):
        if name in self.vars:
            raise ValueError("duplicate variable " + name)
        seed = self.norm_const(seed, dt)
        t = self._mk("var", dt, (name,), seed)
        self.vars[name] = t
        return t

    def norm_const(self, v, dt):
        if dt == BOOL:
            return bool(v)
        if is_int(dt):
            return wrap_int(int(v), dt)
        return fround_fmt(float(v), dt)

    def const(self, v, dt):
        v = self.norm_const(v, dt)
        if isinstance(v, float):
            key = ("const", dt, (struct.pack("<d", v),))
        else:
            key = ("const", dt, (v,))
        t = self.table.get(key)
        if t is None:
            t = T()
            t.op, t.dt, t.args, t.cv = "const", dt, (v,), v
            t.uid = self.n
            self.n += 1
            self.table[key] = t
        return t

    # ---- float / int arithmetic
    def bin(self, op, dt, a, b):
        """op in add sub mul div min max (floats: one correctly rounded op in dt; ints: wrap-around)
        plus and or xor shl shr floordiv rem for ints; a, b already of dtype dt."""
        assert a.dt == dt and b.dt == dt, (op, dt, a, b)
        if op in ("min", "max") and (a.op == op or b.op == op) and not getattr(self, "_in_canon", False):
            # min/max are associative, commutative and idempotent (NaN-propagating): canonical left-deep chain over
            # the uid-sorted operand set, so that reductions over the same elements in a different order coincide
            ops, stack = {}, [a, b]
            while stack:
                t = stack.pop()
                if t.op == op and t.dt == dt:
                    stack.extend(t.args)
                else:
                    ops[t.uid] = t
            ops = [ops[k] for k in sorted(ops)]
            self._in_canon = True
            try:
                acc = ops[0]
                for o in ops[1:]:
                    acc = self.bin(op, dt, acc, o)
            finally:
                self._in_canon = False
            return acc
        x, y = a.cv, b.cv
        if is_float(dt):
            cv = fround_fmt(_fbin(op, x, y), dt) if op not in ("min", "max") else _fbin(op, x, y)
        elif dt == BOOL:
            cv = {"and": x and y, "or": x or y, "xor": x != y, "mul": x and y, "add": x or y, "max": x or y, "min": x and y}[op]
        else:
            cv = wrap_int(_ibin(op, x, y, INTS[dt]), dt)
        # light normalisation keeps "same computation" recognisable: commutative ops are ordered
        if op in ("add", "mul", "min", "max", "and", "or", "xor") and b.uid < a.uid:
            a, b = b, a
        return self._mk(op, dt, (a, b), cv)

    def un(self, op, dt, a):
        """neg abs round floor ceil trunc (floats) / neg abs not (ints) / not (bool) / sign, reciprocal, sqrt, exp..."""
        assert a.dt == dt
        x = a.cv
        if is_float(dt):
            cv = _fun(op, x, dt)
        elif dt == BOOL:
            cv = not x
        else:
            cv = wrap_int({"neg": -x, "abs": abs(x), "not": ~x, "sign": (x > 0) - (x < 0)}[op], dt)
        return self._mk(op, dt, (a,), cv)

    def cast(self, a, dt):
        src = a.dt
        if src == dt:
            return a
        x = a.cv
        if dt == BOOL:
            cv = (x != 0) if not isinstance(x, float) else (x != 0.0)
        elif is_float(dt):
            cv = fround_fmt(float(x), dt)
        else:
            if is_float(src):
                cv = float_to_int(x, dt)
                self.cast_obligations.append((a, dt))
            else:
                cv = wrap_int(int(x), dt)
        if a.op == "const":
            return self.const(cv, dt)
        # exact up-cast followed by a down-cast to the original dtype is the identity
        if a.op == "cast" and a.args[0].dt == dt and _exact_upcast(dt, src):
            return a.args[0]
        # same-width integer reinterpretation there and back (int8 <-> uint8) is the identity
        if a.op == "cast" and a.args[0].dt == dt and is_int(dt) and is_int(src) and INTS[dt][0] == INTS[src][0]:
            return a.args[0]
        return self._mk("cast", dt, (a,), cv)

    def cmp(self, op, a, b):
        assert a.dt == b.dt, (op, a, b)
        x, y = a.cv, b.cv
        cv = {"eq": x == y, "ne": x != y, "lt": x < y, "le": x <= y, "gt": x > y, "ge": x >= y}[op]
        return self._mk(op, BOOL, (a, b), bool(cv))

    def ite(self, c, a, b):
        assert c.dt == BOOL and a.dt == b.dt
        if a is b:
            return a
        if c.op == "const":
            return a if c.cv else b
        return self._mk("ite", a.dt, (c, a, b), a.cv if c.cv else b.cv)

    def nary(self, op, dt, args, cv):
        """sum / dot with unspecified association order (cv is the real kernel's value); canonical argument order
        (multiset semantics) so that equal computations coincide, also after substitution"""
        args = list(args)
        if op in ("sum", "mean"):
            args.sort(key=lambda t: t.uid)
        elif op in ("dot", "dotb", "dot_scaled"):
            head = args[:1] if op != "dot" else []
            rest = args[1:] if op != "dot" else args
            pairs = []
            for i in range(0, len(rest), 2):
                x, y = rest[i], rest[i + 1]
                pairs.append((x, y) if x.uid <= y.uid else (y, x))
            pairs.sort(key=lambda p: (p[0].uid, p[1].uid))
            args = head + [t for p in pairs for t in p]
        return self._mk(op, dt, tuple(args), cv)

    def uf(self, name, dt, statics, args, cv):
        """opaque function of (statics, args): equal iff name, statics and argument terms are equal"""
        self.uf_names.add(name)
        return self._mk("uf", dt, (name, statics) + tuple(args), cv)

    # ---- reinterpretation of storage bytes (deepcopy / storage copies / view(dtype)); cv comes from the real kernel
    def bitcast(self, a, dt, cv):
        if a.dt == dt:
            return a
        if a.op == "bitcast" and a.args[0].dt == dt:
            return a.args[0]
        if is_int(a.dt) and is_int(dt) and INTS[a.dt][0] == INTS[dt][0]:
            return self.cast(a, dt)
        return self._mk("bitcast", dt, (a,), self.norm_const(cv, dt))

    def byte_of(self, a, k, dt, cv):
        return self._mk("byte", dt, (a, k), self.norm_const(cv, dt))

    def from_parts(self, parts, dt, cv):
        src = parts[0].args[0] if parts[0].op == "byte" else None
        if src is not None and all(p.op == "byte" and p.args[0] is src and p.args[1] == i for i, p in enumerate(parts)):
            import torch as _t

            if _t.empty(0, dtype=src.dt).element_size() == len(parts):
                return src if src.dt == dt else self.bitcast(src, dt, cv)
        return self._mk("frombytes", dt, tuple(parts), self.norm_const(cv, dt))

    def isnan(self, a):
        return self._mk("isnan", BOOL, (a,), a.cv != a.cv)

    def isinf(self, a):
        return self._mk("isinf", BOOL, (a,), a.cv in (INF, -INF))

    def isfinite(self, a):
        return self._mk("isfinite", BOOL, (a,), not (a.cv != a.cv or a.cv in (INF, -INF)))


def _exact_upcast(small, big):
    if is_float(small) and is_float(big):
        fs, fb = FMT[small], FMT[big]
        return fb["p"] >= fs["p"] and fb["emax"] >= fs["emax"] and fb["emin"] - fb["p"] <= fs["emin"] - fs["p"]
    if is_int(small) and is_int(big):
        (bs, ss), (bb, sb) = INTS[small], INTS[big]
        return bb > bs and (sb or not ss) or (bb == bs and ss == sb)
    if is_int(small) and is_float(big):
        bs, ss = INTS[small]
        return FMT[big]["p"] >= bs and FMT[big]["emax"] >= bs
    if small == BOOL:
        return True
    return False


def _fbin(op, x, y):
    try:
        if op == "add":
            return x + y
        if op == "sub":
            return x - y
        if op == "mul":
            return x * y
        if op == "div":
            if y == 0.0:
                if x != x or x == 0.0:
                    return NAN
                return math.copysign(INF, x) * math.copysign(1.0, y)
            return x / y
        if op == "max":
            if x != x or y != y:
                return NAN
            if x == y:
                # torch.maximum(-0., 0.) picks by order of comparison; sign of zero is not relied upon
                return x if math.copysign(1.0, x) > 0 else y
            return x if x > y else y
        if op == "min":
            if x != x or y != y:
                return NAN
            if x == y:
                return x if math.copysign(1.0, x) < 0 else y
            return x if x < y else y
        if op == "pow":
            return math.pow(x, y)
        if op == "rem":
            return math.fmod(x, y)
    except OverflowError:
        return NAN
    raise NotImplementedError(op)


def _ibin(op, x, y, info):
    bits, signed = info
    if op == "add":
        return x + y
    if op == "sub":
        return x - y
    if op == "mul":
        return x * y
    if op == "and":
        return x & y
    if op == "or":
        return x | y
    if op == "xor":
        return x ^ y
    if op == "shl":
        return x << y if 0 <= y < bits else 0
    if op == "shr":
        return x >> y if 0 <= y < bits else (0 if x >= 0 else -1)
    if op == "min":
        return min(x, y)
    if op == "max":
        return max(x, y)
    if op == "floordiv":
        return x // y if y != 0 else 0
    if op == "truncdiv":
        return int(x / y) if y != 0 else 0
    if op == "rem":
        return x % y if y != 0 else 0
    raise NotImplementedError(op)


def _fun(op, x, dt):
    if op == "neg":
        return -x
    if op == "abs":
        return abs(x)
    if x != x:
        return x
    if op in ("round", "floor", "ceil", "trunc"):
        if x in (INF, -INF):
            return x
        r = {"round": round, "floor": math.floor, "ceil": math.ceil, "trunc": math.trunc}[op](x)
        r = float(r)
        if r == 0.0:
            r = math.copysign(0.0, x)
        return r
    if op == "sign":
        return float((x > 0) - (x < 0))
    if op == "reciprocal":
        return fround_fmt(_fbin("div", 1.0, x), dt)
    if op == "sqrt":
        return fround_fmt(math.sqrt(x), dt) if x >= 0 else NAN
    raise NotImplementedError(op)


def support(terms):
    """names of the variables a collection of terms depends on (syntactic; sound for 'does not depend')"""
    seen = set()
    out = set()
    stack = list(terms)
    while stack:
        t = stack.pop()
        if t.uid in seen:
            continue
        seen.add(t.uid)
        if t.op == "var":
            out.add(t.args[0])
        else:
            stack.extend(a for a in t.args if isinstance(a, T))
    return out


def dag_size(terms):
    seen = set()
    stack = list(terms)
    while stack:
        t = stack.pop()
        if t.uid in seen:
            continue
        seen.add(t.uid)
        stack.extend(a for a in t.args if isinstance(a, T))
    return len(seen)


def topo(terms):
    """children-before-parents order of the DAG below terms"""
    order = []
    seen = set()
    stack = [(t, False) for t in terms]
    while stack:
        t, done = stack.pop()
        if done:
            order.append(t)
            continue
        if t.uid in seen:
            continue
        seen.add(t.uid)
        stack.append((t, True))
        for a in t.args:
            if isinstance(a, T) and a.uid not in seen:
                stack.append((a, False))
    return order
