"""Conformance of the term evaluator and of the BIT back end with the real torch kernels.

evaluator sweep: float8 casts for ALL 2^16 float16 and bfloat16 inputs (both float8 types), float->int8/uint8/int32 casts and
+,-,*,/ , round, clamp on boundary-directed value sets of float16/bfloat16/float32.
BIT sweep: the z3 encoding of the float8 casts on a boundary-directed subset (every binade edge, mid-points, saturation)."""
import itertools
import math

import torch

from . import terms as tm


def all_values(dt):
    bits = torch.arange(-(2**15), 2**15, dtype=torch.int32).to(torch.int16)
    return bits.view(dt)


def boundary_values(dt):
    f = tm.FMT[dt]
    vals = {0.0, -0.0, 1.0, -1.0, 0.5, 1.5, 2.5, 126.5, 127.5, 128.5, -128.5, 255.5, f["fmax"], -f["fmax"], f["fmin_sub"], f["fmin_norm"], 447.9, 448.0, 464.0, 480.0, 57344.0, 61440.0, float("inf"), float("-inf"), float("nan")}
    for e in range(-12, 17):
        for m in (1.0, 1.0625, 1.125, 1.5, 1.9375, 1.99):
            vals.add(m * 2.0**e)
            vals.add(-m * 2.0**e)
    t = torch.tensor(sorted(v for v in vals if v == v) + [float("nan")], dtype=torch.float64).to(dt)
    return t


def evaluator_sweep(full=True):
    """returns (checked, mismatches list)"""
    bad, n = [], 0
    for dt in (tm.F16, tm.BF16):
        src = all_values(dt) if full else boundary_values(dt)
        xs = src.to(torch.float64).tolist()
        for f8 in (tm.E4M3, tm.E5M2):
            real = src.to(f8).to(torch.float64).tolist()
            for x, r in zip(xs, real):
                n += 1
                e = tm.fround_fmt(x, f8)
                if not (tm.same_value(e, r) or (e == 0.0 and r == 0.0)):
                    bad.append(("cast", str(dt), str(f8), x, e, r))
                    if len(bad) > 20:
                        return n, bad
    for dt in (tm.F16, tm.BF16, tm.F32):
        src = boundary_values(dt)
        xs = src.to(torch.float64).tolist()
        for idt in (torch.int8, torch.uint8, torch.int32):
            real = src.to(idt).tolist()
            for x, r in zip(xs, real):
                if x != x or abs(x) >= 2.0**31:
                    continue  # NaN / out of int32 range: unconstrained in the model (flagged by the cast obligation)
                n += 1
                e = tm.float_to_int(x, idt)
                if e != r:
                    bad.append(("f2i", str(dt), str(idt), x, e, r))
        a = src[:60]
        for opn, fn in (("add", torch.add), ("sub", torch.sub), ("mul", torch.mul), ("div", torch.div)):
            A, B = torch.meshgrid(a, a, indexing="ij")
            real = fn(A, B).to(torch.float64).reshape(-1).tolist()
            av = a.to(torch.float64).tolist()
            k = 0
            for x in av:
                for y in av:
                    n += 1
                    e = tm.fround_fmt(tm._fbin(opn, x, y), dt)
                    r = real[k]
                    k += 1
                    if not (tm.same_value(e, r) or (e == 0.0 and r == 0.0)):
                        bad.append((opn, str(dt), x, y, e, r))
        real = torch.round(src).to(torch.float64).tolist()
        for x, r in zip(xs, real):
            n += 1
            e = tm._fun("round", x, dt)
            if not (tm.same_value(e, r) or (e == 0.0 and r == 0.0)):
                bad.append(("round", str(dt), x, e, r))
    return n, bad[:20]


def bit_sweep():
    import z3

    from . import bit

    bad, n = [], 0
    for dt in (tm.F16, tm.BF16, tm.F32):
        src = boundary_values(dt)
        xs = src.to(torch.float64).tolist()
        for f8 in (tm.E4M3, tm.E5M2):
            for x in xs:
                n += 1
                e = tm.fround_fmt(x, f8)
                z = z3.simplify(bit.to_f8(bit.fpval(x, dt), bit.SORTS[dt], f8))
                want = bit.fpval(e, tm.F32)
                ok = str(z) == str(want) or z3.is_true(z3.simplify(z3.fpEQ(z, want))) or (e != e and z3.is_true(z3.simplify(z3.fpIsNaN(z))))
                if not ok:
                    bad.append((str(dt), str(f8), x, str(z), e))
    return n, bad[:20]
