"""CrossHair on functions sliced from the AST of the current source (pure-Python parts that never touch a tensor)."""
import ast
import hashlib
import os
import re
import subprocess
import sys
import textwrap
import time

ROOT = os.path.dirname(os.path.dirname(os.path.abspath(__file__)))
REPO = os.environ.get("QUANTO_REPO", "/repo")


def source_of(relpath, name):
    """source text of a top-level function (or Class.method) of a file of the current working tree"""
    src = open(os.path.join(REPO, relpath)).read()
    tree = ast.parse(src)
    parts = name.split(".")
    nodes = tree.body
    node = None
    for p in parts:
        node = next(n for n in nodes if isinstance(n, (ast.FunctionDef, ast.ClassDef)) and n.name == p)
        nodes = getattr(node, "body", [])
    return textwrap.dedent(ast.get_source_segment(src, node)), node, src


def run(module_text, tag, per_condition_timeout=30, total_timeout=400):
    """writes module_text under .cache and runs `crosshair check --report_all`; returns list of (function, verdict, message)"""
    d = os.path.join(ROOT, ".cache", "xhair")
    os.makedirs(d, exist_ok=True)
    h = hashlib.sha256(module_text.encode()).hexdigest()[:12]
    path = os.path.join(d, f"{tag}_{h}.py")
    with open(path, "w") as f:
        f.write(module_text)
    t0 = time.time()
    env = dict(os.environ)
    env["PYTHONPATH"] = d
    r = subprocess.run([sys.executable, "-m", "crosshair", "check", "--report_all", "--per_condition_timeout", str(per_condition_timeout), path], capture_output=True, text=True, timeout=total_timeout, env=env)
    out = r.stdout + r.stderr
    res = []
    for line in out.splitlines():
        m = re.match(r".*?:(\d+): (info|error): (.*)", line)
        if m:
            kind, msg = m.group(2), m.group(3)
            if "Confirmed over all paths" in msg:
                v = "unsat"
            elif kind == "error":
                v = "sat"
            else:
                v = "unknown"
            res.append((int(m.group(1)), v, msg))
    return res, time.time() - t0, out[-1500:]
