"""Escape guard + numpy bridge: Tensor.numpy() of a tensor with symbolic storage returns a SymArray supporting the handful of
numpy operations quanto's AWQ code and the reference packer use (astype, reshape, transpose, &, |, <<, >>, indexing), and
torch.tensor(SymArray) re-attaches the terms.  Any other escape of a symbolic tensor raises Unsupported."""
import numpy as np
import torch
from torch.overrides import TorchFunctionMode

from . import terms as tm
from .mode import Unsupported, obj_array

NP2T = {"uint8": torch.uint8, "int8": torch.int8, "int16": torch.int16, "uint16": torch.uint16, "int32": torch.int32, "int64": torch.int64}


def _tdt(d):
    name = np.dtype(d).name
    if name not in NP2T:
        raise Unsupported(f"numpy dtype {name}")
    return NP2T[name]


class SymArray:
    def __init__(self, ctx, terms, tdt):
        self.ctx, self.terms, self.tdt = ctx, terms, tdt

    @property
    def shape(self):
        return self.terms.shape

    @property
    def dtype(self):
        return np.dtype(str(self.tdt).replace("torch.", ""))

    def _new(self, terms, tdt=None):
        return SymArray(self.ctx, terms, tdt or self.tdt)

    def reshape(self, *shape):
        if len(shape) == 1 and isinstance(shape[0], (tuple, list)):
            shape = tuple(shape[0])
        return self._new(self.terms.reshape(shape))

    def transpose(self, *axes):
        if len(axes) == 1 and isinstance(axes[0], (tuple, list)):
            axes = tuple(axes[0])
        return self._new(self.terms.transpose(axes))

    def astype(self, d):
        tdt = _tdt(d)
        c = self.ctx
        flat = [c.cast(t, tdt) for t in self.terms.reshape(-1)]
        return self._new(obj_array(self.terms.shape, flat), tdt)

    def __getitem__(self, idx):
        r = self.terms[idx]
        if not isinstance(r, np.ndarray):
            a = np.empty((), dtype=object)
            a[()] = r
            r = a
        return self._new(r)

    def _bin(self, op, other):
        c = self.ctx
        if isinstance(other, SymArray):
            tdt = self.tdt
            if other.tdt != tdt:
                raise Unsupported("mixed numpy dtypes")
            a, b = np.broadcast_arrays(self.terms, other.terms)
            flat = [c.bin(op, tdt, x, y) for x, y in zip(a.reshape(-1), b.reshape(-1))]
            return self._new(obj_array(a.shape, flat))
        k = c.const(int(other), self.tdt)
        flat = [c.bin(op, self.tdt, x, k) for x in self.terms.reshape(-1)]
        return self._new(obj_array(self.terms.shape, flat))

    def __and__(self, o):
        return self._bin("and", o)

    def __or__(self, o):
        return self._bin("or", o)

    def __lshift__(self, o):
        return self._bin("shl", o)

    def __rshift__(self, o):
        return self._bin("shr", o)

    def concrete(self):
        vals = [t.cv for t in self.terms.reshape(-1)]
        return np.array(vals, dtype=self.dtype).reshape(self.terms.shape)


class NumpyBridge(TorchFunctionMode):
    """also patches torch.Tensor.numpy / torch.tensor directly while active: inside a subclass's __torch_dispatch__ the
    torch-function modes are not consulted, and a silent escape there would lose the symbols"""

    def __init__(self, mode):
        super().__init__()
        self.mode = mode

    def __enter__(self):
        self._orig_numpy, self._orig_tensor = torch.Tensor.numpy, torch.tensor
        bridge = self

        def numpy(t, *a, **k):
            if type(t) is torch.Tensor and bridge.mode.is_sym(t):
                return SymArray(bridge.mode.ctx, bridge.mode.read(t), t.dtype)
            return bridge._orig_numpy(t, *a, **k)

        def tensor(data, *a, **k):
            if isinstance(data, SymArray):
                t = bridge._orig_tensor(data.concrete(), **{kk: v for kk, v in k.items() if kk in ("dtype", "device")})
                terms = data.terms
                if t.dtype != data.tdt:
                    c = bridge.mode.ctx
                    terms = obj_array(terms.shape, [c.cast(x, t.dtype) for x in terms.reshape(-1)])
                bridge.mode.write(t, terms)
                return t
            return bridge._orig_tensor(data, *a, **k)

        torch.Tensor.numpy = numpy
        torch.tensor = tensor
        return super().__enter__()

    def __exit__(self, *a):
        torch.Tensor.numpy, torch.tensor = self._orig_numpy, self._orig_tensor
        return super().__exit__(*a)

    def __torch_function__(self, func, types, args=(), kwargs=None):
        kwargs = kwargs or {}
        name = getattr(func, "__name__", "")
        if func is torch.Tensor.numpy or name == "numpy":
            t = args[0]
            if type(t) is torch.Tensor and self.mode.is_sym(t):
                return SymArray(self.mode.ctx, self.mode.read(t), t.dtype)
        if func in (torch.tensor, torch.as_tensor, torch.from_numpy) and args and isinstance(args[0], SymArray):
            sa = args[0]
            t = torch.tensor(sa.concrete(), **{k: v for k, v in kwargs.items() if k in ("dtype", "device")})
            terms = sa.terms
            if t.dtype != sa.tdt:
                c = self.mode.ctx
                terms = obj_array(terms.shape, [c.cast(x, t.dtype) for x in terms.reshape(-1)])
            self.mode.write(t, terms)
            return t
        if name in ("tolist", "__array__", "data_ptr", "untyped_storage") and args and type(args[0]) is torch.Tensor and self.mode.is_sym(args[0]) and name != "untyped_storage":
            raise Unsupported(f"symbolic tensor escapes the dispatcher through {name}")
        return func(*args, **kwargs)
