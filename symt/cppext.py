"""Build quanto's C++ unpack extension from /repo's current sources without ninja (g++), cached under
/verif/.cache keyed by the source hash, and install it in memory as the extension's lib (nothing is written under /repo)."""
import hashlib
import importlib.util
import os
import subprocess
import sys
import sysconfig

ROOT = os.path.dirname(os.path.dirname(os.path.abspath(__file__)))
REPO = os.environ.get("QUANTO_REPO", "/repo")


def build():
    import torch
    from torch.utils import cpp_extension as ce

    src_dir = os.path.join(REPO, "optimum/quanto/library/ext/cpp")
    srcs = [os.path.join(src_dir, f) for f in ("unpack.cpp", "pybind_module.cpp")]
    hdrs = [os.path.join(src_dir, f) for f in sorted(os.listdir(src_dir)) if f.endswith((".h", ".cpp"))]
    h = hashlib.sha256()
    for f in hdrs:
        h.update(open(f, "rb").read())
    h.update(torch.__version__.encode())
    d = os.path.join(ROOT, ".cache", "cpp_" + h.hexdigest()[:16])
    so = os.path.join(d, "quanto_cpp.so")
    if not os.path.exists(so):
        os.makedirs(d, exist_ok=True)
        tl = os.path.join(os.path.dirname(torch.__file__), "lib")
        cmd = ["g++", "-shared", "-fPIC", "-O1", "-std=c++20", "-DTORCH_EXTENSION_NAME=quanto_cpp", "-DTORCH_API_INCLUDE_EXTENSION_H", "-D_GLIBCXX_USE_CXX11_ABI=" + str(int(torch._C._GLIBCXX_USE_CXX11_ABI))]
        cmd += srcs
        for p in ce.include_paths():
            cmd += ["-isystem", p]
        cmd += ["-I", sysconfig.get_paths()["include"], "-L", tl, "-Wl,-rpath," + tl, "-ltorch", "-ltorch_cpu", "-lc10", "-ltorch_python", "-o", so + ".tmp"]
        r = subprocess.run(cmd, capture_output=True, text=True)
        if r.returncode != 0:
            raise RuntimeError("C++ build failed: " + r.stderr[-2000:])
        os.replace(so + ".tmp", so)
    return so


def load():
    so = build()
    if "quanto_cpp" in sys.modules:
        return sys.modules["quanto_cpp"]
    spec = importlib.util.spec_from_file_location("quanto_cpp", so)
    mod = importlib.util.module_from_spec(spec)
    spec.loader.exec_module(mod)
    sys.modules["quanto_cpp"] = mod
    return mod


def install():
    """make optimum.quanto's cpp extension use the freshly built lib"""
    from optimum.quanto.library.ext.cpp import ext

    ext._lib = load()
    return ext


class Raising:
    """stand-in lib whose kernels raise: exercises the fallback branch of library/ops.py"""

    def __getattr__(self, name):
        def f(*a, **k):
            raise RuntimeError("simulated extension failure")

        return f
