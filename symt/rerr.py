"""RERR domain: the term DAG interpreted over the reals with one bounded relative error |e| <= u = 2^-p and one
bounded absolute error |d| <= eta = 2^(emin-p) per rounding (standard model of IEEE arithmetic, Higham 2002, (2.4)
extended with gradual underflow).  NaN/Inf do not exist here: every division records a `divisor != 0`
obligation, every float result can be asked to obey `|r| <= fmax`, every float->int cast and integer operation
records a no-wrap obligation.  An `unsat` answer is a proof for every IEEE execution that meets the recorded
obligations; a `sat` answer is only a candidate and must be replayed.

With ideal=True, u = eta = 0: exact real arithmetic ("equal in exact arithmetic" clauses).
"""
from fractions import Fraction

import z3

from . import terms as tm
from .terms import BOOL, FLOATS, INTS, T


def rv(x):
    if isinstance(x, float):
        x = Fraction(x)
    if isinstance(x, Fraction):
        return z3.RealVal(f"{x.numerator}/{x.denominator}")
    return z3.RealVal(x)


def zabs(x):
    return z3.If(x >= 0, x, -x)


class Rerr:
    def __init__(self, ctx, ideal=False, int_round=False, prefix=""):
        self.ctx = ctx
        self.ideal = ideal
        self.int_round = int_round
        self.prefix = prefix
        self.memo = {}
        self.vars = {}
        self.cons = []  # constraints on fresh error variables (always assumed)
        self.oblig = []  # (kind, z3 Bool that must hold for the model to be meaningful, term)
        self.nerr = 0
        self.f8casts = []  # (src expr, result expr, dtype, term)
        self.ufs = {}
        self.intvalued = set()  # uids of float terms known to be integer valued

    def fresh(self, base, sort="real"):
        self.nerr += 1
        n = f"{self.prefix}{base}!{self.nerr}"
        return z3.Int(n) if sort == "int" else z3.Real(n)

    def rounded(self, exact, dt, absolute=True, t=None):
        """exact*(1+e)+d"""
        if self.ideal or dt == tm.F64:
            return exact
        f = tm.FMT[dt]
        e = self.fresh("e")
        u = rv(Fraction(1, 2 ** f["p"]))
        self.cons.append(e <= u)
        self.cons.append(e >= -u)
        r = exact * (1 + e)
        if absolute:
            d = self.fresh("d")
            eta = rv(Fraction(2) ** (f["emin"] - f["p"]))
            self.cons.append(d <= eta)
            self.cons.append(d >= -eta)
            r = r + d
        return r

    def tr(self, root):
        memo = self.memo
        if root.uid in memo:
            return memo[root.uid]
        for t in tm.topo([root]):
            if t.uid not in memo:
                memo[t.uid] = self._node(t)
        return memo[root.uid]

    def _node(self, t):
        m = self.memo
        op, dt = t.op, t.dt
        if op == "var":
            name = self.prefix + t.args[0]
            if dt == BOOL:
                v = z3.Bool(name)
            elif dt in INTS:
                v = z3.Int(name) if self.int_round else z3.Real(name)
                bits, signed = INTS[dt]
                lo, hi = (-(1 << (bits - 1)), (1 << (bits - 1)) - 1) if signed else (0, (1 << bits) - 1)
                self.cons.append(v >= lo)
                self.cons.append(v <= hi)
                self.intvalued.add(t.uid)
            else:
                v = z3.Real(name)
            self.vars[t.args[0]] = v
            return v
        if op == "const":
            if dt == BOOL:
                return z3.BoolVal(t.cv)
            if dt in INTS:
                self.intvalued.add(t.uid)
                return z3.IntVal(t.cv) if self.int_round else rv(t.cv)
            if t.cv != t.cv or t.cv in (tm.INF, -tm.INF):
                raise NotImplementedError("non-finite constant in RERR")
            if float(t.cv).is_integer():
                self.intvalued.add(t.uid)
            return rv(t.cv)
        a = [m[x.uid] if isinstance(x, T) else x for x in t.args]
        targs = [x for x in t.args if isinstance(x, T)]
        allint = all(x.uid in self.intvalued for x in targs)
        if op in ("add", "sub", "mul", "div", "min", "max"):
            x, y = a
            if dt in FLOATS:
                if op in ("min", "max"):
                    if allint:
                        self.intvalued.add(t.uid)
                    return z3.If(x >= y, x, y) if op == "max" else z3.If(x <= y, x, y)
                if op == "div":
                    self.oblig.append(("div0", y != 0, t))
                    return self.rounded(x / y, dt, True, t)
                if op == "mul":
                    return self.rounded(x * y, dt, True, t)
                ex = x + y if op == "add" else x - y
                if allint:
                    # integer-valued float add/sub: exact while below 2^p (obligation)
                    self.intvalued.add(t.uid)
                    f = tm.FMT[dt]
                    self.oblig.append(("intexact", z3.And(ex <= 2 ** f["p"], ex >= -(2 ** f["p"])), t))
                    return ex
                return self.rounded(ex, dt, False, t)
            if dt in INTS:
                bits, signed = INTS[dt]
                lo, hi = (-(1 << (bits - 1)), (1 << (bits - 1)) - 1) if signed else (0, (1 << bits) - 1)
                self.intvalued.add(t.uid)
                if op == "div":
                    raise NotImplementedError
                ex = {"add": x + y, "sub": x - y, "mul": x * y, "min": z3.If(x <= y, x, y), "max": z3.If(x >= y, x, y)}[op]
                if op in ("add", "sub", "mul"):
                    self.oblig.append(("intwrap", z3.And(ex >= lo, ex <= hi), t))
                return ex
            if dt == BOOL:
                return {"add": z3.Or, "mul": z3.And, "max": z3.Or, "min": z3.And}[op](x, y)
        if op in ("and", "or", "xor"):
            if dt == BOOL:
                return {"and": z3.And, "or": z3.Or, "xor": z3.Xor}[op](*a)
            raise NotImplementedError("bitwise op in RERR: cut it first")
        if op in ("neg", "abs"):
            if targs[0].uid in self.intvalued:
                self.intvalued.add(t.uid)
            ex = -a[0] if op == "neg" else zabs(a[0])
            if dt in INTS:
                bits, signed = INTS[dt]
                lo, hi = (-(1 << (bits - 1)), (1 << (bits - 1)) - 1) if signed else (0, (1 << bits) - 1)
                self.oblig.append(("intwrap", z3.And(ex >= lo, ex <= hi), t))
            return ex
        if op == "not" and dt == BOOL:
            return z3.Not(a[0])
        if op in ("round", "floor", "ceil", "trunc"):
            x = a[0]
            self.intvalued.add(t.uid)
            if targs[0].uid in self.intvalued:
                return x
            r = self.fresh("r", "int" if self.int_round else "real")
            rr = z3.ToReal(r) if self.int_round else r
            if op == "round":
                self.cons.append(rr - x <= rv(Fraction(1, 2)))
                self.cons.append(x - rr <= rv(Fraction(1, 2)))
            elif op == "floor":
                self.cons.append(rr <= x)
                self.cons.append(x - rr < 1)
            elif op == "ceil":
                self.cons.append(rr >= x)
                self.cons.append(rr - x < 1)
            else:
                self.cons.append(zabs(rr) <= zabs(x))
                self.cons.append(zabs(x) - zabs(rr) < 1)
                self.cons.append(rr * x >= 0)
            return rr
        if op == "cast":
            x = a[0]
            src = targs[0].dt
            if src == BOOL:
                self.intvalued.add(t.uid)
                return z3.If(x, rv(1), rv(0))
            if dt == BOOL:
                return x != 0
            if src in FLOATS and dt in FLOATS:
                if targs[0].uid in self.intvalued:
                    self.intvalued.add(t.uid)
                if dt in (tm.E4M3, tm.E5M2):
                    # contract of the (PyTorch) cast kernel: the result is a nearest grid point of its input:
                    # within half an ulp of the input's binade, same sign, saturating at fmax
                    v = self.fresh("f8")
                    self.f8casts.append((x, v, dt, t))
                    f = tm.FMT[dt]
                    if self.ideal:
                        self.cons.append(v == x)
                        return v
                    ax = zabs(x)
                    p, emin, emax = f["p"], f["emin"], f["emax"]
                    k = z3.ToReal(self.fresh("k", "int"))  # the significand: v is a grid point
                    self.cons.append(z3.Implies(ax < rv(Fraction(2) ** emin), v == k * rv(Fraction(2) ** (emin - p + 1))))
                    for E in range(emin, emax + 1):
                        self.cons.append(z3.Implies(z3.And(ax >= rv(Fraction(2) ** E), ax < rv(Fraction(2) ** (E + 1))), v == k * rv(Fraction(2) ** (E - p + 1))))
                    self.cons.append(z3.Implies(x >= 0, v >= 0))
                    self.cons.append(z3.Implies(x <= 0, v <= 0))
                    self.cons.append(z3.Implies(ax < rv(Fraction(2) ** emin), zabs(v - x) <= rv(Fraction(2) ** (emin - p))))
                    for E in range(emin, emax + 1):
                        self.cons.append(z3.Implies(z3.And(ax >= rv(Fraction(2) ** E), ax < rv(Fraction(2) ** (E + 1))), z3.And(zabs(v - x) <= rv(Fraction(2) ** (E - p)), zabs(v) >= rv(Fraction(2) ** E), zabs(v) <= rv(Fraction(2) ** (E + 1)))))
                    self.cons.append(zabs(v) <= rv(f["fmax"]))
                    self.oblig.append(("f8range", z3.And(x <= rv(f["fmax"]), x >= rv(-f["fmax"])), t))
                    return v
                if tm._exact_upcast(src, dt) or (targs[0].uid in self.intvalued and dt not in (tm.E4M3, tm.E5M2)):
                    if targs[0].uid in self.intvalued and not tm._exact_upcast(src, dt):
                        f = tm.FMT[dt]
                        self.oblig.append(("intexact", z3.And(x <= 2 ** f["p"], x >= -(2 ** f["p"])), t))
                    return x
                return self.rounded(x, dt, True, t)
            if src in INTS and dt in FLOATS:
                self.intvalued.add(t.uid)
                xr = z3.ToReal(x) if z3.is_int(x) else x
                bits = INTS[src][0]
                if dt in (tm.E4M3, tm.E5M2):
                    raise NotImplementedError("int->float8")
                if tm.FMT[dt]["p"] >= bits:
                    return xr
                f = tm.FMT[dt]
                self.oblig.append(("intexact", z3.And(xr <= 2 ** f["p"], xr >= -(2 ** f["p"])), t))
                return xr
            if src in FLOATS and dt in INTS:
                bits, signed = INTS[dt]
                lo, hi = (-(1 << (bits - 1)), (1 << (bits - 1)) - 1) if signed else (0, (1 << bits) - 1)
                self.intvalued.add(t.uid)
                if targs[0].uid in self.intvalued:
                    self.oblig.append(("castrange", z3.And(x >= lo, x <= hi), t))
                    return x
                r = self.fresh("tr", "int" if self.int_round else "real")
                rr = z3.ToReal(r) if self.int_round else r
                self.cons.append(zabs(rr) <= zabs(x))
                self.cons.append(zabs(x) - zabs(rr) < 1)
                self.cons.append(rr * x >= 0)
                self.oblig.append(("castrange", z3.And(rr >= lo, rr <= hi), t))
                return rr
            if src in INTS and dt in INTS:
                bits, signed = INTS[dt]
                lo, hi = (-(1 << (bits - 1)), (1 << (bits - 1)) - 1) if signed else (0, (1 << bits) - 1)
                self.intvalued.add(t.uid)
                if not tm._exact_upcast(src, dt):
                    self.oblig.append(("intwrap", z3.And(x >= lo, x <= hi), t))
                return x
        if op in ("eq", "ne", "lt", "le", "gt", "ge"):
            x, y = a
            if targs[0].dt == BOOL:
                return (x == y) if op == "eq" else z3.Xor(x, y)
            return {"eq": x == y, "ne": x != y, "lt": x < y, "le": x <= y, "gt": x > y, "ge": x >= y}[op]
        if op == "ite":
            if all(x.uid in self.intvalued for x in targs[1:]):
                self.intvalued.add(t.uid)
            return z3.If(a[0], a[1], a[2])
        if op in ("isnan", "isinf"):
            return z3.BoolVal(False)
        if op == "isfinite":
            return z3.BoolVal(True)
        if op in ("sum", "mean"):
            ex = a[0]
            for x in a[1:]:
                ex = ex + x
            n = len(a)
            if dt in INTS:
                return ex
            if self.ideal:
                return ex / n if op == "mean" else ex
            # |fl(sum) - sum| <= gamma_{n-1} * sum|x_i|  (any order): fresh error per term
            acc = None
            for x in a:
                e = self.fresh("e")
                g = rv(Fraction(n - 1, 2 ** tm.FMT[dt]["p"]) * Fraction(101, 100))
                self.cons += [e <= g, e >= -g]
                term = x * (1 + e)
                acc = term if acc is None else acc + term
            if op == "mean":
                acc = self.rounded(acc / n, dt, True, t)
            return acc
        if op in ("dot", "dotb", "dot_scaled"):
            extra = scale = None
            if op == "dotb":
                extra, a = a[0], a[1:]
            if op == "dot_scaled":
                scale, a = a[0], a[1:]
            n = len(a) // 2 + (1 if extra is not None else 0)
            if dt in INTS:
                acc = 0
                for i in range(0, len(a), 2):
                    acc = acc + a[i] * a[i + 1]
                if all(x.uid in self.intvalued for x in targs):
                    self.intvalued.add(t.uid)
                return acc
            acc = None
            allint_ = all(x.uid in self.intvalued for x in targs)
            for i in range(0, len(a), 2):
                p = a[i] * a[i + 1]
                if not self.ideal and not allint_:
                    e = self.fresh("e")
                    g = rv(Fraction(n, 2 ** tm.FMT[dt]["p"]) * Fraction(101, 100))
                    self.cons += [e <= g, e >= -g]
                    p = p * (1 + e)
                acc = p if acc is None else acc + p
            if extra is not None:
                if not self.ideal:
                    e = self.fresh("e")
                    g = rv(Fraction(n, 2 ** tm.FMT[dt]["p"]) * Fraction(101, 100))
                    self.cons += [e <= g, e >= -g]
                    acc = acc + extra * (1 + e)
                else:
                    acc = acc + extra
            if allint_ and extra is None:
                # integer-valued float dot product: exact while below 2^p
                self.intvalued.add(t.uid)
                f = tm.FMT[dt]
                self.oblig.append(("intexact", z3.And(acc <= 2 ** f["p"], acc >= -(2 ** f["p"])), t))
            if scale is not None:
                acc = self.rounded(acc * scale, dt, True, t)
            return acc
        if op == "uf":
            name, statics = t.args[0], t.args[1]
            args = a[2:]
            args = [z3.ToReal(x) if z3.is_int(x) else x for x in args]
            rs = z3.BoolSort() if dt == BOOL else z3.RealSort()
            key = (name, statics, tuple(x.sort() for x in args), dt)
            f = self.ufs.get(key)
            if f is None:
                if not args:
                    f = z3.Const(f"{self.prefix}ufc{len(self.ufs)}", rs)
                else:
                    f = z3.Function(f"{self.prefix}uf{len(self.ufs)}", *[x.sort() for x in args], rs)
                self.ufs[key] = f
            return f(*args) if args else f
        raise NotImplementedError(f"RERR: {op} on {dt}")
