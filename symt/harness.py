"""Check driver: runs the cases of one property in forked workers under deadlines, replays every candidate
violation on plain quanto, applies the known-findings file, writes the evidence file and sets the exit code.

Exit codes: 0 property held on everything explored (inconclusive queries are counted and printed);
1 with `VIOLATION property=<id> replay=<path>` for a violation reproduced on the un-instrumented code and not
listed in known_findings.json; 3 harness error (op-model mismatch, unreproduced exact model, crashed case).
"""
import importlib
import json
import multiprocessing as mp
import os
import subprocess
import sys
import time
import traceback

ROOT = os.path.dirname(os.path.dirname(os.path.abspath(__file__)))
REPO = os.environ.get("QUANTO_REPO", "/repo")
OUT = os.environ.get("VERIF_OUT", ROOT)  # evidence/ and replays/ go here (mutant runs are redirected elsewhere)


# ---------------------------------------------------------------------------------------------- case results
class CaseResult:
    """what one case (one configuration run under the symbolic mode) reports back to the driver"""

    def __init__(self, case):
        self.case = case
        self.queries = []  # dict(clause, domain, verdict, secs, nvars, size)
        self.side = []  # dict(clause, ok, detail): value-independent side conditions evaluated on this run
        self.candidates = []  # dict(clause, domain, inputs, note): models / concrete failures to replay
        self.ops = {}
        self.funcs = []
        self.opaque = []
        self.paths = 0
        self.validated = 0
        self.error = None
        self.notes = []
        self.wall = 0.0

    def query(self, clause, domain, verdict, secs, **kw):
        d = dict(clause=clause, domain=domain, verdict=verdict, secs=round(secs, 3))
        d.update(kw)
        self.queries.append(d)

    def side_ok(self, clause, ok, detail=""):
        self.side.append(dict(clause=clause, ok=bool(ok), detail=str(detail)[:300]))

    def candidate(self, clause, domain, inputs, note="", exact=False, cap=3):
        if sum(1 for c in self.candidates if c["clause"] == clause) >= cap:
            return
        self.candidates.append(dict(clause=clause, domain=domain, inputs=inputs, note=note, exact=exact))

    def to_dict(self):
        return {k: v for k, v in self.__dict__.items() if not k.startswith("_")}


# ---------------------------------------------------------------------------------------------- function coverage
class FuncCoverage:
    TOOL = 4

    def __init__(self):
        self.seen = set()
        self.on = False

    def start(self):
        mon = sys.monitoring
        try:
            mon.use_tool_id(self.TOOL, "symt")
        except ValueError:
            return
        prefix = os.path.join(REPO, "")

        def cb(code, off):
            fn = code.co_filename
            if fn.startswith(prefix) and ("/optimum/quanto/" in fn or "/external/" in fn):
                self.seen.add(fn[len(prefix):].replace("optimum/quanto/", "") + ":" + code.co_qualname)
            return mon.DISABLE

        mon.register_callback(self.TOOL, mon.events.PY_START, cb)
        mon.set_events(self.TOOL, mon.events.PY_START)
        self.on = True

    def stop(self):
        if self.on:
            sys.monitoring.set_events(self.TOOL, 0)
            sys.monitoring.free_tool_id(self.TOOL)
            self.on = False
        return sorted(x for x in self.seen if "<module>" not in x and "<lambda>" not in x)


# ---------------------------------------------------------------------------------------------- worker
def _worker(modname, case, conn, seed):
    t0 = time.time()
    res = CaseResult(case)
    cov = FuncCoverage()
    try:
        import torch

        torch.set_num_threads(1)
        torch.manual_seed(seed)
        mod = importlib.import_module(modname)
        cov.start()
        mod.run_case(case, res)
    except BaseException as e:  # noqa
        res.error = f"{type(e).__name__}: {e}\n" + traceback.format_exc()[-1500:]
    res.funcs = cov.stop()
    res.wall = round(time.time() - t0, 3)
    try:
        conn.send(res.to_dict())
    except Exception as e:  # unpicklable payload
        conn.send(dict(case=case, error=f"unpicklable result: {e}", queries=[], side=[], candidates=[], ops={}, funcs=[], opaque=[], paths=0, validated=0, notes=[], wall=res.wall))
    conn.close()


def run_cases(modname, cases, seed, jobs=None, deadline=300.0):
    """run each case in a forked process with a wall-clock deadline; returns list of result dicts"""
    jobs = jobs or int(os.environ.get("VERIF_JOBS", str(min(16, os.cpu_count() or 4))))
    ctx = mp.get_context("fork")
    pending = list(enumerate(cases))
    running = {}
    out = [None] * len(cases)
    while pending or running:
        while pending and len(running) < jobs:
            i, case = pending.pop(0)
            pc, cc = ctx.Pipe(duplex=False)
            p = ctx.Process(target=_worker, args=(modname, case, cc, seed))
            p.start()
            cc.close()
            dl = case.get("deadline", deadline) if isinstance(case, dict) else deadline
            running[i] = (p, pc, time.time(), dl)
        done = []
        for i, (p, pc, t0, dl) in running.items():
            if pc.poll(0):
                try:
                    out[i] = pc.recv()
                except EOFError:
                    out[i] = dict(case=cases[i], error="worker died without result", queries=[], side=[], candidates=[], ops={}, funcs=[], opaque=[], paths=0, validated=0, notes=[], wall=time.time() - t0)
                p.join(5)
                done.append(i)
            elif not p.is_alive():
                out[i] = dict(case=cases[i], error=f"worker exited with code {p.exitcode}", queries=[], side=[], candidates=[], ops={}, funcs=[], opaque=[], paths=0, validated=0, notes=[], wall=time.time() - t0)
                done.append(i)
            elif time.time() - t0 > dl:
                p.kill()
                p.join(5)
                out[i] = dict(case=cases[i], error=None, timeout=True, queries=[dict(clause="case-deadline", domain="-", verdict="unknown", secs=dl)], side=[], candidates=[], ops={}, funcs=[], opaque=[], paths=0, validated=0, notes=[f"case exceeded its {dl}s deadline: inconclusive"], wall=time.time() - t0)
                done.append(i)
        for i in done:
            running.pop(i)
        if not done:
            time.sleep(0.02)
    return out


# ---------------------------------------------------------------------------------------------- replay
def replay_candidate(pid, modname, cand, case, idx):
    d = os.path.join(OUT, "replays", pid)
    os.makedirs(d, exist_ok=True)
    path = os.path.join(d, f"{idx}.json")
    with open(path, "w") as f:
        json.dump(dict(property=pid, module=modname, case=case, clause=cand["clause"], inputs=cand["inputs"], note=cand.get("note", "")), f, indent=1)
    r = subprocess.run([sys.executable, os.path.join(ROOT, "replay.py"), path], capture_output=True, text=True, timeout=600)
    return path, r.returncode, (r.stdout + r.stderr)[-2000:]


def load_known():
    p = os.path.join(ROOT, "known_findings.json")
    if not os.path.exists(p):
        return []
    return json.load(open(p))


# ---------------------------------------------------------------------------------------------- main
def main(pid, modname, argv=None):
    argv = argv if argv is not None else sys.argv[1:]
    t0 = time.time()
    tier = os.environ.get("VERIF_TIER") or (argv[0] if argv else "quick")
    seed = int(os.environ.get("VERIF_SEED", "0"))
    mod = importlib.import_module(modname)
    cases = mod.cases(tier, seed)
    deadline = getattr(mod, "CASE_DEADLINE", {}).get(tier, 300.0)
    results = run_cases(modname, cases, seed, deadline=deadline)
    known = [k for k in load_known() if k["property"] == pid]
    known_keys = {k["key"]: k for k in known if k.get("status") == "known"}

    verdicts = {"unsat": 0, "sat": 0, "unknown": 0}
    solver_s = 0.0
    errors, inconclusive, violations, known_hits = [], [], [], {}
    side_fail = []
    ops, funcs, opaque = {}, set(), set()
    nq = 0
    distinct = set()
    samples = []
    replays_attempted = replays_confirmed = 0
    validated = 0
    ncand = 0
    from concurrent.futures import ThreadPoolExecutor

    jobs_ = []
    for r in results:
        for cand in r["candidates"]:
            jobs_.append((cand, r["case"]))
    with ThreadPoolExecutor(max_workers=int(os.environ.get("VERIF_JOBS", "12"))) as ex:
        futs = [ex.submit(replay_candidate, pid, modname, cand, case, i + 1) for i, (cand, case) in enumerate(jobs_)]
        replayed = [f.result() for f in futs]
    replay_iter = iter(replayed)
    for r in results:
        if r.get("error"):
            errors.append((r["case"], r["error"]))
        for q in r["queries"]:
            verdicts[q["verdict"]] = verdicts.get(q["verdict"], 0) + 1
            solver_s += q["secs"]
            nq += 1
            if q["verdict"] == "unknown":
                inconclusive.append((r["case"], q))
            if q.get("symbolic", True):
                distinct.add((json.dumps(r["case"], sort_keys=True, default=str), q["clause"], q.get("sub", "")))
            if len(samples) < 12 and (nq % max(1, len(results) // 6) == 1 or len(samples) < 3):
                samples.append(dict(case=r["case"], **q))
        for s in r["side"]:
            if not s["ok"]:
                side_fail.append((r["case"], s))
        for k, v in r["ops"].items():
            ops[k] = ops.get(k, 0) + v
        funcs.update(r["funcs"])
        opaque.update(r["opaque"])
        validated += r.get("validated", 0)
        for cand in r["candidates"]:
            ncand += 1
            replays_attempted += 1
            path, rc, outp = next(replay_iter)
            if rc == 1:
                replays_confirmed += 1
                keys = [line.split(":", 1)[1].strip() for line in outp.splitlines() if line.startswith("FINDING-KEY:")]
                if keys and all(k in known_keys for k in keys):
                    for key in keys:
                        known_hits.setdefault(key, (path, outp))
                else:
                    violations.append((cand, r["case"], path, outp))
            elif rc == 0:
                if cand.get("exact"):
                    errors.append((r["case"], f"exact-domain model for clause {cand['clause']} did not reproduce on plain quanto ({path}): encoding error\n{outp[-600:]}"))
                elif not cand["clause"].startswith("region-witness"):
                    inconclusive.append((r["case"], dict(clause=cand["clause"], verdict="abstract-cex-not-reproduced", domain=cand["domain"])))
            else:
                errors.append((r["case"], f"replay crashed rc={rc} for {path}: {outp[-800:]}"))
    # side-condition failures are concrete observations on the real code: they are violations (after replay they were
    # emitted as candidates by the case itself when replayable); the remaining ones are reported as errors
    for case, s in side_fail:
        if not s.get("replayed"):
            errors.append((case, f"side condition failed without replayable candidate: {s}"))

    wall = time.time() - t0
    for key, (path, outp) in known_hits.items():
        print(f"KNOWN-FINDING: property={pid} {known_keys[key]['what']} (key={key}, witness replayed: {path})")
    for cand, case, path, outp in violations:
        print(f"VIOLATION property={pid} replay={path}")
        print(f"  clause={cand['clause']} case={json.dumps(case, default=str)}")
        for line in outp.strip().splitlines()[-6:]:
            print("   | " + line)
    for case, q in inconclusive[:20]:
        print(f"INCONCLUSIVE property={pid} case={json.dumps(case, default=str)} {q}")
    for case, e in errors[:10]:
        print(f"HARNESS-ERROR property={pid} case={json.dumps(case, default=str)}\n{e}")

    extra = getattr(mod, "EVIDENCE", {})
    ev = dict(
        property_id=pid,
        tier=tier if tier in ("quick", "thorough") else "quick",
        seed=seed,
        level="model_checking",
        coverage=dict(
            evaluations=nq + sum(len(r["side"]) for r in results),
            distinct_nontrivial=len(distinct),
            rule="one evaluation = one solver query (negated clause over the symbolic run of the real code for one configuration) or one side-condition evaluation; a query is non-trivial when its assertion mentions at least one symbolic input variable; distinct = distinct (configuration, clause, sub-case) triples",
            samples=samples or [dict(note="no solver query issued")],
            exhaustive=False,
            cases=len(results),
            queries=dict(total=nq, **verdicts),
            solver_seconds=round(solver_s, 2),
            side_conditions=sum(len(r["side"]) for r in results),
            side_condition_failures=len(side_fail),
            paths_explored=sum(r.get("paths", 0) for r in results),
            op_model_validations=validated,
            aten_ops_interpreted=dict(sorted(ops.items())),
            opaque_ops=sorted(opaque),
            functions_executed=sorted(funcs),
            replays_attempted=replays_attempted,
            replays_confirmed=replays_confirmed,
            known_findings_reproduced=sorted(known_hits),
            inconclusive=len(inconclusive),
            harness_errors=len(errors),
            bounds=extra.get("bounds", ""),
            outside=extra.get("outside", ""),
            explanation="bounded symbolic execution of the real quanto code at the ATen boundary (symt); see DESIGN.md",
        ),
        assumptions=extra.get("assumptions", []),
        wall_s=round(wall, 2),
        violations=len(violations),
    )
    os.makedirs(os.path.join(OUT, "evidence"), exist_ok=True)
    with open(os.path.join(OUT, "evidence", f"{pid}.json"), "w") as f:
        json.dump(ev, f, indent=1, default=str)
    print(f"[{pid} {tier}] cases={len(results)} queries={nq} {verdicts} side={ev['coverage']['side_conditions']} replays={replays_confirmed}/{replays_attempted} inconclusive={len(inconclusive)} errors={len(errors)} wall={wall:.1f}s solver={solver_s:.1f}s")
    if violations:
        return 1
    if errors:
        return 3
    return 0
