"""Helpers shared by the check modules: sessions, solving, (de)serialisation of concrete inputs."""
import json
import math
import time
from fractions import Fraction

import numpy as np
import torch
import z3

from . import bit as bitmod
from . import terms as tm
from .mode import ModelMismatch, SymMode, Unsupported, obj_array, umap  # noqa
from .terms import BOOL, FLOATS, INTS, T

DT = {"float16": torch.float16, "bfloat16": torch.bfloat16, "float32": torch.float32, "float64": torch.float64,
      "int8": torch.int8, "uint8": torch.uint8, "int16": torch.int16, "int32": torch.int32, "int64": torch.int64, "bool": torch.bool,
      "float8_e4m3fn": torch.float8_e4m3fn, "float8_e5m2": torch.float8_e5m2}
F3 = ["float16", "bfloat16", "float32"]


def dtn(dt):
    return str(dt).replace("torch.", "")


# ------------------------------------------------------------------------------ JSON <-> tensors (exact)
def enc_val(v):
    if isinstance(v, float):
        if v != v:
            return "nan"
        if v in (tm.INF, -tm.INF):
            return "inf" if v > 0 else "-inf"
        return v.hex()
    return v


def dec_val(v):
    if isinstance(v, str):
        if v in ("nan", "inf", "-inf"):
            return float(v)
        return float.fromhex(v)
    return v


def enc_tensor(t):
    vals = t.detach().to(torch.float64 if t.dtype.is_floating_point else torch.int64).reshape(-1).tolist() if t.dtype != torch.bool else t.reshape(-1).tolist()
    d = dict(dtype=dtn(t.dtype), shape=list(t.shape), values=[enc_val(v) for v in vals], approx=[v if not isinstance(v, float) or v == v and abs(v) != tm.INF else str(v) for v in vals])
    if type(t) is torch.Tensor and t.numel() > 1 and not t.is_contiguous() and all(s > 0 for s in t.stride()):
        d["stride"] = list(t.stride())  # the memory layout is part of the input (non-overlapping layouts only)
    return d


def dec_tensor(d):
    dt = DT[d["dtype"]]
    vals = [dec_val(v) for v in d["values"]]
    if dt.is_floating_point:
        t = torch.tensor(vals, dtype=torch.float64).to(dt)
    else:
        t = torch.tensor(vals, dtype=dt)
    # a fresh base tensor, not a view: in-place writes through views of autograd.Function inputs behave differently
    t = t.reshape(d["shape"]).clone()
    if d.get("stride"):
        try:
            s = torch.empty_strided(d["shape"], d["stride"], dtype=t.dtype)
            s.copy_(t)
            return s
        except Exception:  # noqa  (overlapping layout: keep the contiguous copy)
            pass
    return t


# ------------------------------------------------------------------------------ solving
def solve(assertions, timeout_s=30.0, logic=None, want_model=True, tactic=None):
    """returns (verdict, seconds, model-or-None); verdict in unsat/sat/unknown"""
    t0 = time.time()
    if tactic:
        s = z3.Tactic(tactic).solver()
    elif logic:
        s = z3.SolverFor(logic)
    else:
        s = z3.Solver()
    s.set("timeout", int(timeout_s * 1000))
    for a in assertions:
        s.add(a)
    r = s.check()
    dt = time.time() - t0
    v = str(r)
    _maybe_dump(s, v, dt)
    if v == "sat" and want_model:
        return v, dt, s.model()
    return v, dt, None


_DUMP = {"n": 0}


def _maybe_dump(s, verdict, secs):
    """with VERIF_DUMP=<dir>, every VERIF_DUMP_EVERY-th decided query is written as SMT-LIB2 for the second-solver cross-check"""
    import os

    d = os.environ.get("VERIF_DUMP")
    if not d or verdict == "unknown":
        return
    _DUMP["n"] += 1
    if _DUMP["n"] % int(os.environ.get("VERIF_DUMP_EVERY", "25")) != 1:
        return
    os.makedirs(d, exist_ok=True)
    with open(os.path.join(d, f"q{os.getpid()}_{_DUMP['n']}.smt2"), "w") as f:
        f.write(f"; expected: {verdict}\n; z3-5.1 seconds: {secs:.3f}\n")
        f.write(s.to_smt2())


def model_values(b, model, arr):
    """concrete Python values of the variables in the term array arr (all must be `var` nodes) under a BIT model"""
    out = []
    for t in np.asarray(arr, dtype=object).reshape(-1):
        assert t.op == "var", t
        zv = b.vars.get(t.args[0])
        if zv is None:
            out.append(t.cv)  # variable not in the query: any value, keep the seed
            continue
        mv = model.eval(zv, model_completion=True)
        vdt = t.dt if t.dt not in (tm.E4M3, tm.E5M2) else tm.F32
        out.append(bitmod.z3_value(mv, vdt))
    return out


def real_model_values(r, model, arr, dtype):
    """values of variables under a RERR model: rationals rounded to the nearest representable value of dtype"""
    out = []
    for t in np.asarray(arr, dtype=object).reshape(-1):
        zv = r.vars.get(t.args[0])
        if zv is None:
            out.append(t.cv)
            continue
        mv = model.eval(zv, model_completion=True)
        if z3.is_int_value(mv):
            out.append(mv.as_long())
            continue
        if z3.is_algebraic_value(mv):
            mv = mv.approx(30)
        fr = Fraction(mv.numerator_as_long(), mv.denominator_as_long())
        x = fr.numerator / fr.denominator if abs(fr) < 1e300 else float(fr)
        out.append(tm.fround_fmt(float(x), dtype) if dtype in FLOATS else int(round(x)))
    return out


def tensor_from_values(vals, shape, dtype):
    if dtype.is_floating_point:
        return torch.tensor(vals, dtype=torch.float64).to(dtype).reshape(shape)
    return torch.tensor(vals, dtype=dtype).reshape(shape)


# ------------------------------------------------------------------------------ term utilities
def subst(ctx, roots, mapping):
    """rebuild the DAG below roots with nodes replaced per mapping {uid: replacement T}; returns list of new roots.
    Rebuilding goes through the smart constructors, so concrete values are recomputed from the new leaves."""
    memo = dict(mapping)
    for t in tm.topo(list(roots)):
        if t.uid in memo:
            continue
        if t.op in ("var", "const"):
            memo[t.uid] = t
            continue
        na = [memo[a.uid] if isinstance(a, T) else a for a in t.args]
        if all(x is y for x, y in zip(na, t.args)):
            memo[t.uid] = t
            continue
        memo[t.uid] = rebuild(ctx, t, na)
    return [memo[r.uid] for r in roots]


def rebuild(ctx, t, na):
    op, dt = t.op, t.dt
    if op in ("add", "sub", "mul", "div", "min", "max", "and", "or", "xor", "shl", "shr", "floordiv", "truncdiv", "rem", "pow"):
        return ctx.bin(op, dt, na[0], na[1])
    if op in ("neg", "abs", "round", "floor", "ceil", "trunc", "not", "sign", "reciprocal", "sqrt"):
        return ctx.un(op, dt, na[0])
    if op == "cast":
        return ctx.cast(na[0], dt)
    if op in ("eq", "ne", "lt", "le", "gt", "ge"):
        return ctx.cmp(op, na[0], na[1])
    if op == "ite":
        return ctx.ite(*na)
    if op == "isnan":
        return ctx.isnan(na[0])
    if op == "isinf":
        return ctx.isinf(na[0])
    if op == "isfinite":
        return ctx.isfinite(na[0])
    if op in ("sum", "mean", "dot", "dotb", "dot_scaled"):
        return ctx.nary(op, dt, na, t.cv)
    if op == "uf":
        return ctx._mk("uf", dt, tuple(na), t.cv)
    if op == "bitcast":
        return ctx.bitcast(na[0], dt, t.cv)
    if op == "byte":
        return ctx.byte_of(na[0], na[1], dt, t.cv)
    if op == "frombytes":
        return ctx.from_parts(list(na), dt, t.cv)
    raise NotImplementedError(op)


def cut(ctx, roots, nodes, prefix="cut"):
    """replace the given nodes by fresh variables (same dtype, same seed value); returns (new_roots, {var_name: node})"""
    mapping, back = {}, {}
    for i, n in enumerate(nodes):
        if n.uid in mapping:
            continue
        ctx.ncut = getattr(ctx, "ncut", 0) + 1
        name = f"{prefix}{i}_{n.uid}_{ctx.ncut}"
        v = ctx.var(name, n.dt, n.cv)
        mapping[n.uid] = v
        back[name] = n
    return subst(ctx, roots, mapping), mapping, back


def fresh_fork(fn, timeout=600):
    """run fn() in a forked child of the current process and return its (picklable) result: state that a library keeps between
    calls (memoised limits, caches, singletons) set inside fn does not reach the caller, and the child starts from the caller's
    state at the time of the call - so histories can be compared with a run that has no history"""
    import os
    import pickle
    import select

    r, w = os.pipe()
    pid = os.fork()
    if pid == 0:
        try:
            os.close(r)
            try:
                out = ("ok", fn())
            except BaseException as e:  # noqa
                out = ("err", f"{type(e).__name__}: {e}")
            with os.fdopen(w, "wb") as f:
                pickle.dump(out, f)
        finally:
            os._exit(0)
    os.close(w)
    buf = b""
    with os.fdopen(r, "rb") as f:
        while True:
            ready, _, _ = select.select([f], [], [], timeout)
            if not ready:
                os.kill(pid, 9)
                break
            chunk = f.read()
            buf += chunk
            if not chunk or True:
                break
    os.waitpid(pid, 0)
    if not buf:
        raise RuntimeError("forked run produced no result")
    kind, val = pickle.loads(buf)
    if kind == "err":
        raise RuntimeError("forked run failed: " + val)
    return val


def find_nodes(roots, pred):
    return [t for t in tm.topo(list(roots)) if pred(t)]


def finite_fp(b, x):
    e = b.tr(x)
    return z3.Not(z3.Or(z3.fpIsNaN(e), z3.fpIsInf(e)))


class Session:
    """with Session(res) as m: ... runs real code under the symbolic mode and records ops into the case result"""

    def __init__(self, res=None, validate=True):
        self.res = res
        self.mode = SymMode(validate=validate)

    def __enter__(self):
        import warnings

        warnings.filterwarnings("ignore")
        self.mode.__enter__()
        return self.mode

    def __exit__(self, *a):
        r = self.mode.__exit__(*a)
        if self.res is not None:
            for k, v in self.mode.oplog.items():
                self.res.ops[k] = self.res.ops.get(k, 0) + v
            self.res.opaque = sorted(set(self.res.opaque) | self.mode.opaque_ops)
            self.res.validated += self.mode.validated
            self.res.paths += 1
            for f in sorted(set(self.mode.taint_lost)):
                self.res.query("taint-continuity", "engine", "unknown", 0.0, symbolic=False, note=f"{f} returned concrete data for symbolic inputs: computed below the ATen boundary, claims depending on it are not decided")
        return r


# ------------------------------------------------------------------------------ compositional cut through bit packing
BITOPS = ("and", "or", "xor", "shl", "shr", "not")


def _isbit(t):
    return t.dt in INTS and (t.op in BITOPS or (t.op == "cast" and isinstance(t.args[0], T) and t.args[0].dt in INTS))


def unpack_lemma(ctx, roots, bits, res=None, clause="unpack(pack(code))==code"):
    """Sub-byte codes travel through pack -> unpack (shifts/masks/integer casts, possibly through wider integer words)
    before they are dequantized.  RERR/ALG cannot interpret bit operations, so the path is cut compositionally, every step
    decided by the solver on the real terms:
      range lemma: each packed leaf L = cast(uint8, F) satisfies L < 2^bits for EVERY value of the floats F is clamped from
                   (BIT, floats below the clamp cut to fresh variables); variable leaves are constrained by the harness;
      field lemma: each maximal bit-op/int-cast subterm U below `roots` equals one leaf L (cast to U's dtype) for every leaf
                   value < 2^bits (BIT/BV).
    Returns {U.uid: L'} (to be used with subst), or None when a lemma is not proved."""
    from . import bit as bitmod

    cache = ctx.__dict__.setdefault("lemma_cache", {"range": {}, "field": {}})
    order = tm.topo(list(roots))
    users = {}
    for t in order:
        for a_ in t.args:
            if isinstance(a_, T):
                users.setdefault(a_.uid, []).append(t)
    rootset = {r.uid for r in roots}
    maximal = [t for t in order if _isbit(t) and (any(not _isbit(u) for u in users.get(t.uid, [])) or t.uid in rootset)]
    # an int-cast directly above a leaf is not a cone
    maximal = [t for t in maximal if any(x.op in BITOPS for x in tm.topo([t]) if _isbit(x))]
    mapping = {}
    if not maximal:
        return mapping
    leaves = {}
    for u in maximal:
        stack, seen = [u], set()
        while stack:
            t = stack.pop()
            if t.uid in seen:
                continue
            seen.add(t.uid)
            if _isbit(t):
                stack.extend(x for x in t.args if isinstance(x, T))
            elif t.op != "const" and t.dt in INTS:
                leaves[t.uid] = t
    leaves = list(leaves.values())
    ok = True
    for L in leaves:
        if L.op == "var" or L.dt != torch.uint8:
            continue
        if L.uid in cache["range"]:
            ok = ok and cache["range"][L.uid]
            continue
        tops, seen = [], set()

        def walk(t):
            if t.uid in seen:
                return
            seen.add(t.uid)
            if t.op in ("min", "max") and tm.is_float(t.dt) or (t.op == "cast" and t is L):
                for x in t.args:
                    if isinstance(x, T):
                        walk(x)
            elif t.op != "const":
                tops.append(t)

        walk(L)
        (Lc,), _, _ = cut(ctx, [L], tops, "rng")
        b = bitmod.Bit(ctx)
        v, secs, _ = solve(b.side + [z3.UGE(b.tr(Lc), 2**bits)], 60)
        if res is not None:
            res.query(clause, "BIT", v, secs, sub="range-lemma")
        cache["range"][L.uid] = v == "unsat"
        ok = ok and v == "unsat"
    todo = [U for U in maximal if U.uid not in cache["field"]]
    for U in maximal:
        if U.uid in cache["field"]:
            mapping[U.uid] = cache["field"][U.uid]
    if not todo:
        return mapping if ok else None
    cutU, cmap, back = cut(ctx, todo, leaves, "leaf")
    b = bitmod.Bit(ctx)
    pre = {L.uid: z3.ULT(b.tr(cmap[L.uid]), 2**bits) for L in leaves if L.dt == torch.uint8}
    for U, Uc in zip(todo, cutU):
        found = None
        # only the leaves this cone mentions can equal it
        mine = [L for L in leaves if cmap[L.uid].args[0] in tm.support([Uc])]
        uw = wrapv = None
        for L in sorted(mine, key=lambda L: tm.wrap_int(int(L.cv), U.dt) != U.cv):
            if tm.wrap_int(int(L.cv), U.dt) != U.cv:
                break
            lz = b.tr(ctx.cast(cmap[L.uid], U.dt))
            v, secs, _ = solve([pre[x.uid] for x in mine if x.uid in pre] + [b.tr(Uc) != lz], 60)
            if v == "unsat":
                found = L
                if res is not None:
                    res.query(clause, "BIT", v, secs, sub="field-lemma")
                break
        if found is None:
            ok = False
            if res is not None:
                res.query(clause, "BIT", "unknown", 0.0, sub="field-lemma", note=f"no leaf proved equal to {U.pretty(3)}")
        else:
            rep = ctx.cast(found, U.dt)
            mapping[U.uid] = subst(ctx, [rep], mapping)[0] if mapping else rep
            cache["field"][U.uid] = mapping[U.uid]
    return mapping if ok else None


def equal_modulo_bits(ctx, A, B, bits, res=None):
    """are two term arrays equal for every value of the variables?  identical terms -> yes (ALG).  Otherwise sub-byte
    payload bytes are compared as bit-vector functions of their code leaves (each leaf < 2^bits by the range lemma),
    and float terms are compared after the unpack cut lemmas.  Returns True / False / None (not decided)."""
    from . import bit as bitmod

    A = list(np.asarray(A, dtype=object).reshape(-1))
    B = list(np.asarray(B, dtype=object).reshape(-1))
    if len(A) != len(B):
        return False
    if all(x is y for x, y in zip(A, B)):
        return True
    if bits is None:
        return False
    if all(x.dt == torch.uint8 for x in A + B):
        isbit = lambda t: t.dt == torch.uint8 and t.op in BITOPS  # noqa
        leaves = {}
        for t in tm.topo(A + B):
            if t.dt == torch.uint8 and not isbit(t) and t.op != "const":
                leaves[t.uid] = t
        leaves = list(leaves.values())
        outs, cmap, _ = cut(ctx, A + B, leaves, "pl")
        b = bitmod.Bit(ctx)
        pre = [z3.ULT(b.tr(cmap[L.uid]), 2**bits) for L in leaves]
        neq = [b.tr(x) != b.tr(y) for x, y in zip(outs[: len(A)], outs[len(A) :]) if x is not y]
        if not neq:
            return True
        v, secs, _ = solve(pre + [z3.Or(*neq)], 60)
        if res is not None:
            res.query("payload-bytes-equal", "BIT", v, secs, nvars=len(leaves))
        return True if v == "unsat" else False if v == "sat" else None
    mp = unpack_lemma(ctx, A + B, bits, None)
    if mp is None:
        return None
    A2, B2 = subst(ctx, A, mp), subst(ctx, B, mp)
    return all(x is y for x, y in zip(A2, B2))
