import json, sys
sys.path.insert(0,'/verif')
props = [json.loads(l) for l in open('/verif/properties.jsonl')]
import importlib
claimed = json.load(open('/verif/manifest_claims.json'))
checks = []
na = []
for p in props:
    pid = p['id']
    if pid in claimed:
        c = claimed[pid]
        checks.append(dict(property_id=pid, quick_cmd=f"./check {pid} quick", thorough_cmd=f"./check {pid} thorough",
            evidence_file=f"/verif/evidence/{pid}.json", replay_cmd_template=f"./check {pid} --replay {{path}}", engine="symt",
            level_claimed=dict(category="model_checking", text=c['text'], design_ref=f"DESIGN.md section 6, {pid}"),
            level_note=c['note'], technique=c['technique']))
    else:
        na.append(dict(property_id=pid, reason="check not built yet in this revision of /verif (planned: DESIGN.md section 6); nothing is claimed for it"))
m = dict(version=1, setup_cmd="./setup.sh",
  hooks=dict(guard="QUANTO_VERIF", enable="no source hooks: the checks import the unmodified /repo working tree under a TorchDispatchMode; QUANTO_VERIF=1 is exported by ./check but nothing in /repo reads it", baseline_off_cmd="cd /repo && /venv/bin/python -m pytest -ra -q -p no:cacheprovider --timeout=900 --continue-on-collection-errors", source_commits=[], add_only=True),
  engines=[dict(name="symt", path="/verif/symt", serves_properties=sorted(claimed), kind_free_text="concolic symbolic execution of the real quanto/PyTorch code at the ATen operator boundary (TorchDispatchMode + shadow memory of hash-consed terms), decided by z3 in three domains: BIT (FP/BV exact), RERR (reals with bounded rounding errors), ALG (term identity/support); CrossHair for pure-Python slices")],
  checks=checks, not_applicable=na,
  notes="Every check re-runs /repo's current working tree; counterexamples are replayed on plain quanto before a VIOLATION line is printed; known findings (status known) and repaired defects (status fixed, with the /repo commit) are listed in /verif/known_findings.json; thirteen unguarded 'fix:' commits were made in /repo (MaxOptimizer range contains zero; calibrate_input momentum; stack fallback; split sizes; copy_ into a plain tensor; lt for float8; AbsmaxOptimizer never returns a zero scale; activation scale buffers in the module dtype; integer mm with scales along the contraction; returned activations own their scale; re-entered Calibration removes all hooks; GEMM wrappers accept non-contiguous batches; t() below rank 2) - see DESIGN.md section 12. No source hooks exist: QUANTO_VERIF is exported by ./check but nothing in /repo reads it.")
json.dump(m, open('/verif/MANIFEST.json','w'), indent=1)
print(len(checks), 'claimed', len(na), 'n/a')
